//! C08 — strict JSON validation = RFC 8259 (+UTF-8, depth <= 128) (DESIGN §4 C08).
//!
//! Oracle: O-jsonpda, a flat byte-level push-down automaton written for the harness.
//!   * `validate(x).is_ok()`  <=>  PDA accepts x (nesting cap 128).
//!   * on Err(e): `e.position.offset <= viable_len` (the length of the longest prefix of x
//!     that can still be extended to a valid document) and `offset <= len`;
//!     `line`/`column` are those of `offset` (1-based, byte columns; LF, CRLF and a lone
//!     CR each end a line — the convention pinned by the repository's own
//!     `tests/common/json_oracle.rs::position_of`).
//! Library level only; the CLI layers are added elsewhere.
use crate::engine::*;
use crate::gen::json::{self, GenOpts, KeyPalette, StrPalette};
use crate::gen::jsonmut;
use crate::oracle::jsonpda::{self, Verdict};
use serde_json::{json, Value};
use succinctly::json::validate::{validate, ValidationError, ValidationErrorKind};

pub const RULE: &str = "G-json texts (all string palettes, every number shape, random whitespace incl. CR/CRLF/LF, every escape form); 1-2 near-valid edits of them (replace/insert/delete a byte of any value, truncate, duplicate/drop a token, swap a bracket, splice two documents, poison sequences: BOM, NUL, lone/misordered surrogate escapes, overlong / surrogate / >U+10FFFF / truncated UTF-8); bracket chains nested 120..=135 deep ([ / {\"a\": / mixed); grammar token soups; raw bytes. Sub-check `every-single-edit` enumerates, for small generated documents, every byte value at every offset as replacement and as insertion, every deletion and every truncation. Non-trivial: >= 8 bytes and within 2 edits of a valid text (valid, mutated and nested kinds); distinct by hash(bytes). The accept/reject split is reported as classes.";

const MAX_DEPTH: usize = 128;

fn kind_name(k: &ValidationErrorKind) -> &'static str {
    match k {
        ValidationErrorKind::UnexpectedCharacter { .. } => "UnexpectedCharacter",
        ValidationErrorKind::UnexpectedEof { .. } => "UnexpectedEof",
        ValidationErrorKind::TrailingContent => "TrailingContent",
        ValidationErrorKind::UnclosedString => "UnclosedString",
        ValidationErrorKind::InvalidEscape { .. } => "InvalidEscape",
        ValidationErrorKind::InvalidUnicodeEscape { .. } => "InvalidUnicodeEscape",
        ValidationErrorKind::UnpairedSurrogate { .. } => "UnpairedSurrogate",
        ValidationErrorKind::ControlCharacter { .. } => "ControlCharacter",
        ValidationErrorKind::LeadingZero => "LeadingZero",
        ValidationErrorKind::LeadingPlus => "LeadingPlus",
        ValidationErrorKind::InvalidNumber { .. } => "InvalidNumber",
        ValidationErrorKind::InvalidKeyword { .. } => "InvalidKeyword",
        ValidationErrorKind::InvalidUtf8 => "InvalidUtf8",
        ValidationErrorKind::NestingTooDeep { .. } => "NestingTooDeep",
    }
}

/// Naive 1-based (line, byte column) of `offset`: LF, CRLF and a lone CR each end a line.
/// This is the convention the repository pins for `Position` (`tests/common/json_oracle.rs`
/// `position_of`, used by `tests/json_validate_properties.rs`; `validate.rs` tests pin LF and
/// CRLF), columns count bytes (`Position::column` docs).
fn line_col(x: &[u8], offset: usize) -> (usize, usize) {
    let mut line = 1;
    let mut col = 1;
    let mut i = 0;
    while i < offset {
        match x[i] {
            b'\n' => {
                line += 1;
                col = 1;
            }
            b'\r' => {
                if i + 1 < offset && x[i + 1] == b'\n' {
                    i += 1;
                }
                line += 1;
                col = 1;
            }
            _ => col += 1,
        }
        i += 1;
    }
    (line, col)
}

fn has_lone_cr(x: &[u8], upto: usize) -> bool {
    (0..upto.min(x.len())).any(|i| x[i] == b'\r' && x.get(i + 1) != Some(&b'\n'))
}

fn is_hex(b: u8) -> bool {
    b.is_ascii_hexdigit()
}

fn info(x: &[u8]) -> Value {
    json!({"len": x.len(), "input_hex": hex(&x[..x.len().min(4096)]), "input": show_bytes(x)})
}

/// The oracle for one input. Returns whether it was accepted.
pub fn check_input(x: &[u8], st: &mut Stats) -> Result<bool, Fail> {
    let (verdict, _) = jsonpda::run(x, MAX_DEPTH);
    let got: Result<(), ValidationError> = validate(x);
    st.evals(1);
    match (verdict, got) {
        (Verdict::Accept, Ok(())) => Ok(true),
        (Verdict::Accept, Err(e)) => {
            fail!(format!("C08/rejects-valid/{}", kind_name(&e.kind)), {"error": e.to_string(), "case": info(x)})
        }
        (Verdict::Reject { viable_len }, Ok(())) => {
            // name the shape: what is at the point where the text dies
            let at = x.get(viable_len).copied();
            let shape = if viable_len == x.len() {
                "incomplete".to_string()
            } else {
                format!("byte-{:02x}", at.unwrap_or(0))
            };
            fail!(format!("C08/accepts-invalid/{}", shape), {"viable_len": viable_len, "case": info(x)})
        }
        (Verdict::Reject { viable_len }, Err(e)) => {
            let p = e.position;
            let kn = kind_name(&e.kind);
            if p.offset > x.len() {
                fail!(format!("C08/offset-beyond-input/{}", kn), {"offset": p.offset, "error": e.to_string(), "case": info(x)});
            }
            if p.offset > viable_len {
                // Narrow shape of the known surrogate-escape finding: the text died at the
                // 1st or 2nd hex digit of a \uXXXX escape *because of the surrogate pairing
                // rule* (that byte is itself a hex digit), and the validator — which only
                // judges pairing after reading the escape — reports an UnpairedSurrogate /
                // InvalidUnicodeEscape error further on inside or right after that same escape.
                let o = p.offset;
                let v = viable_len;
                let esc_at = |q: usize| q + 1 < x.len() && x[q] == b'\\' && x[q + 1] == b'u';
                let q = if v >= 2 && esc_at(v - 2) {
                    Some(v - 2)
                } else if v >= 3 && esc_at(v - 3) && is_hex(x[v - 1]) {
                    Some(v - 3)
                } else {
                    None
                };
                let surrogate_shape = match q {
                    Some(q) => v < x.len() && is_hex(x[v]) && o <= q + 6 && x[v..o.min(x.len())].iter().all(|&b| is_hex(b)),
                    None => false,
                };
                let sig = if surrogate_shape && (kn == "UnpairedSurrogate" || kn == "InvalidUnicodeEscape") {
                    "C08/offset-beyond-viable-prefix/surrogate-rule-judged-after-the-escape-is-read".to_string()
                } else {
                    format!("C08/offset-beyond-viable-prefix/{}", kn)
                };
                fail!(sig, {"offset": o, "viable_len": viable_len, "error": e.to_string(), "case": info(x)});
            }
            // line / column of that offset
            let lc = line_col(x, p.offset);
            if (p.line, p.column) != lc {
                fail!(format!("C08/line-column/{}", kn), {"offset": p.offset, "expected_line_col": [lc.0, lc.1], "actual_line_col": [p.line, p.column], "lone_cr_before_offset": has_lone_cr(x, p.offset), "error": e.to_string(), "case": info(x)});
            }
            Ok(false)
        }
    }
}

// ---------------------------------------------------------------- generation

pub struct Case {
    pub kind: &'static str,
    pub text: Vec<u8>,
    pub edits: Vec<jsonmut::Edit>,
    pub depth: Option<usize>,
}

fn doc_opts(u: &mut Src, small: bool) -> GenOpts {
    GenOpts {
        max_depth: u.range(0, 7),
        max_nodes: if small { u.range(1, 8) } else if u.ratio(1, 8) { u.range(40, 300) } else { u.range(1, 40) },
        dup_keys: true,
        strings: *u.pick(&[StrPalette::Full, StrPalette::Full, StrPalette::Ascii, StrPalette::AsciiPlain]),
        keys: *u.pick(&[KeyPalette::AsStrings, KeyPalette::Hostile, KeyPalette::Ident]),
        numbers: 2,
        max_str_len: if small { 6 } else { 24 },
    }
}

pub fn gen_case(u: &mut Src) -> Case {
    match u.weighted(&[5, 9, 3, 3, 1]) {
        0 => {
            let o = doc_opts(u, false);
            let (_, r) = jsonmut::gen_doc(u, &o);
            Case { kind: "valid", text: r.text, edits: vec![], depth: None }
        }
        1 => {
            let o = doc_opts(u, false);
            let (_, r) = jsonmut::gen_doc(u, &o);
            let other = if u.ratio(1, 4) {
                let o2 = doc_opts(u, true);
                Some(jsonmut::gen_doc(u, &o2).1.text)
            } else {
                None
            };
            let mut t = r.text.clone();
            let n = if u.ratio(2, 3) { 1 } else { 2 };
            let mut edits = vec![];
            for _ in 0..n {
                edits.push(jsonmut::mutate_once(u, &mut t, Some(&r), other.as_deref()));
            }
            Case { kind: "mutated", text: t, edits, depth: None }
        }
        2 => {
            let d = if u.ratio(3, 4) { u.range(126, 131) } else { u.range(120, 135) };
            let mut t = jsonmut::nested_text(u, d);
            let mut edits = vec![];
            if u.ratio(1, 4) {
                edits.push(jsonmut::mutate_once(u, &mut t, None, None));
            }
            // sometimes as an element of a wider document, so that the cap is hit away from offset 0
            if u.ratio(1, 4) {
                let mut w = b"[1, {\"k\": ".to_vec();
                w.extend_from_slice(&t);
                w.extend_from_slice(b"}, 2]");
                return Case { kind: "nested", text: w, edits, depth: Some(d + 2) };
            }
            Case { kind: "nested", text: t, edits, depth: Some(d) }
        }
        3 => Case { kind: "token-soup", text: jsonmut::token_soup(u, 200, 0), edits: vec![], depth: None },
        _ => Case { kind: "raw", text: jsonmut::raw_bytes(u, 64), edits: vec![], depth: None },
    }
}

fn classify(c: &Case, accepted: bool, st: &mut Stats) {
    st.class(&format!("kind-{}", c.kind));
    st.class(if accepted { "accepted" } else { "rejected" });
    st.class(&format!("kind-{}-{}", c.kind, if accepted { "accepted" } else { "rejected" }));
    for e in &c.edits {
        st.class(&format!("edit-{}", e.kind));
    }
    if c.kind == "nested" {
        // true nesting depth reached by the viable prefix (uncapped automaton run)
        let d = jsonpda::run(&c.text, usize::MAX).1;
        if (126..=131).contains(&d) {
            st.class(&format!("depth-{}", d));
            st.class(&format!("depth-{}-{}", d, if accepted { "accepted" } else { "rejected" }));
        }
    }
    let x = &c.text;
    st.class_if(x.windows(2).any(|w| w == b"\r\n"), "has-CRLF");
    st.class_if(has_lone_cr(x, x.len()), "has-lone-CR");
    st.class_if(x.contains(&b'\n'), "has-LF");
    st.class_if(x.iter().any(|&b| b >= 0x80), "has-non-ASCII");
    st.class_if(x.windows(2).any(|w| w == b"\\u"), "has-\\u-escape");
    let nt = x.len() >= 8 && matches!(c.kind, "valid" | "mutated" | "nested") && c.edits.len() <= 2;
    st.class_if(nt, "nontrivial");
    if nt {
        st.nontrivial(hash_bytes(x));
    }
    st.size(x.len());
}

/// Structured replay: `input.hex` | `input.text` | `input.texts` (several inputs of one root
/// cause). A failure that is not a listed known finding wins over one that is.
fn replay_input(v: &Value, known: &[String]) -> Option<Fail> {
    let mut inputs: Vec<Vec<u8>> = vec![];
    if let Some(h) = v["input"]["hex"].as_str() {
        inputs.push(unhex(h));
    }
    if let Some(t) = v["input"]["text"].as_str() {
        inputs.push(t.as_bytes().to_vec());
    }
    if let Some(a) = v["input"]["texts"].as_array() {
        inputs.extend(a.iter().filter_map(|t| t.as_str()).map(|t| t.as_bytes().to_vec()));
    }
    let mut st = Stats::default();
    let mut known_fail = None;
    for x in inputs {
        let f = match catch(|| check_input(&x, &mut st)) {
            Ok(Ok(_)) => continue,
            Ok(Err(f)) => f,
            Err((loc, msg)) => Fail::new(format!("panic@{}", panic_sig(&loc)), json!({"panic": msg, "location": loc})),
        };
        if known.iter().any(|k| *k == f.sig) {
            known_fail.get_or_insert(f);
        } else {
            return Some(f);
        }
    }
    known_fail
}

pub fn run(cx: &mut Ctx) {
    cx.assume("oracle: harness push-down automaton O-jsonpda (RFC 8259 grammar, UTF-8 well-formedness table of Unicode ch.3, \\u escapes must form scalar values — the validator's own documented reading — nesting <= 128); self-tested against O-jsonval on 400k generated cases");
    cx.assume("line/column convention: 1-based line, 1-based byte column; LF, CRLF and lone CR each end a line (pinned by /repo/tests/common/json_oracle.rs position_of and the validate.rs unit tests)");
    let known: Vec<String> = cx.known.iter().filter(|k| k.status == "known").map(|k| k.signature.clone()).collect();
    for (name, v) in cx.replays.clone() {
        if v["kind"] == "input" {
            let r = replay_input(&v, &known);
            cx.replay_outcome(&name, r);
        }
    }

    cx.check(
        "validate-vs-pda",
        RULE,
        Budget { quick: 250_000, thorough: 10_000_000, max_len: 3000 },
        |u, st| {
            let c = gen_case(u);
            st.describe(|| json!({"kind": c.kind, "hex": hex(&c.text[..c.text.len().min(8192)]), "text": show_bytes(&c.text), "edits": c.edits.iter().map(|e| format!("{}@{} {}", e.kind, e.at, e.detail)).collect::<Vec<_>>(), "depth": c.depth}));
            let r = check_input(&c.text, st);
            let accepted = match &r {
                Ok(a) => *a,
                Err(_) => false,
            };
            classify(&c, accepted, st);
            st.sample(&format!("{}-{}", c.kind, accepted), || json!({"kind": c.kind, "accepted": accepted, "text": show_bytes(&c.text[..c.text.len().min(160)])}));
            st.digest(hash_bytes(&c.text) ^ accepted as u64);
            r.map(|_| ())
        },
    );
    for cl in [
        "kind-valid-accepted",
        "kind-mutated-accepted",
        "kind-mutated-rejected",
        "kind-nested-accepted",
        "kind-nested-rejected",
        "kind-token-soup-rejected",
        "kind-raw-rejected",
        "edit-replace",
        "edit-insert",
        "edit-delete",
        "edit-truncate",
        "edit-dup-token",
        "edit-drop-token",
        "edit-swap-bracket",
        "edit-string-poison",
        "edit-insert-token",
        "edit-splice",
        "depth-126-accepted",
        "depth-127-accepted",
        "depth-128-accepted",
        "depth-129-rejected",
        "depth-130-rejected",
        "depth-131-rejected",
        "has-CRLF",
        "has-lone-CR",
        "has-non-ASCII",
    ] {
        cx.require_class("validate-vs-pda", cl, 20);
    }

    // Every single-byte edit of small documents: all 256 replacement values at every
    // offset, all 256 insertions at every offset (incl. the end), every deletion, every
    // truncation. Exhaustive per document; documents are generated.
    let max_doc = if cx.tier == Tier::Quick { 48 } else { 200 };
    // inside one enumerated case the search must continue past an open known finding
    let tolerant = |x: &[u8], st: &mut Stats| -> Result<bool, Fail> {
        match check_input(x, st) {
            Err(f) if known.iter().any(|k| *k == f.sig) => {
                st.known_hit(&f.sig);
                Ok(false)
            }
            r => r,
        }
    };
    cx.check(
        "every-single-edit",
        "generated documents of <= 48 bytes (200 thorough): for every offset, all 256 replacement bytes, all 256 inserted bytes, the deletion and the truncation, each checked against the PDA",
        Budget { quick: 3_000, thorough: 12_000, max_len: 1200 },
        |u, st| {
            // small document: a few generated values side by side; drop values until it fits
            let mut text = vec![];
            let o = doc_opts(u, true);
            let k = u.range(1, if max_doc > 48 { 8 } else { 4 });
            let mut parts: Vec<json::J> = (0..k).map(|_| json::gen_value(u, &o)).collect();
            let as_obj = u.ratio(1, 3);
            let ro = json::render_opts(u);
            while !parts.is_empty() {
                let j = if parts.len() == 1 {
                    parts[0].clone()
                } else if as_obj {
                    json::J::Obj(parts.iter().enumerate().map(|(i, p)| (format!("{}", (b'a' + i as u8) as char), p.clone())).collect())
                } else {
                    json::J::Arr(parts.clone())
                };
                text = json::render(&j, u, ro).text;
                if text.len() <= max_doc {
                    break;
                }
                parts.pop();
            }
            if text.len() > max_doc {
                text = b"[1,\"a\\u00e9\",{\"k\":-0.5e+1}]".to_vec();
            }
            if u.ratio(1, 6) {
                // start from a near-valid text as well
                let e = jsonmut::mutate_once(u, &mut text, None, None);
                st.class(&format!("base-edit-{}", e.kind));
                text.truncate(max_doc + 8);
            }
            st.describe(|| json!({"base_hex": hex(&text), "base": show_bytes(&text)}));
            st.size(text.len());
            st.sample("base", || json!({"base": show_bytes(&text)}));
            if text.len() >= 8 {
                st.nontrivial(hash_bytes(&text));
            }
            let mut acc = 0u64;
            let mut rej = 0u64;
            let mut tally = |a: bool| {
                if a {
                    acc += 1
                } else {
                    rej += 1
                }
            };
            tally(tolerant(&text, st)?);
            let n = text.len();
            let mut buf = text.clone();
            for i in 0..n {
                let old = buf[i];
                for v in 0..=255u8 {
                    if v == old {
                        continue;
                    }
                    buf[i] = v;
                    tally(tolerant(&buf, st)?);
                }
                buf[i] = old;
            }
            let mut ins = Vec::with_capacity(n + 1);
            for i in 0..=n {
                ins.clear();
                ins.extend_from_slice(&text[..i]);
                ins.push(0);
                ins.extend_from_slice(&text[i..]);
                for v in 0..=255u8 {
                    ins[i] = v;
                    tally(tolerant(&ins, st)?);
                }
            }
            for i in 0..n {
                let mut d = text.clone();
                d.remove(i);
                tally(tolerant(&d, st)?);
                tally(tolerant(&text[..i], st)?);
            }
            if st.recording {
                *st.classes.entry("edits-accepted".into()).or_insert(0) += acc;
                *st.classes.entry("edits-rejected".into()).or_insert(0) += rej;
            }
            Ok(())
        },
    );
    cx.require_class("every-single-edit", "edits-accepted", 1000);
    cx.require_class("every-single-edit", "edits-rejected", 1000);

    // Nesting cap, enumerated: depth 120..=135 x 5 bracket styles x 4 inner values x
    // {bare, embedded, leading whitespace lines}.
    cx.exhaustive(
        "nesting-cap-family",
        "depth 120..=135 x bracket style ([, {\"a\":, alternating x2, [ with CRLF between) x inner (empty, 1, [], {}) x (bare | embedded two levels down | preceded by blank lines); PDA with cap 128",
        true,
        |shard, nshards, st| {
            let mut idx = 0usize;
            for d in 120..=135usize {
                for style in 0..5 {
                    for inner in [&b""[..], b"1", b"[]", b"{}"] {
                        for wrap in 0..3 {
                            idx += 1;
                            if idx % nshards != shard {
                                continue;
                            }
                            let mut open = Vec::new();
                            let mut close = Vec::new();
                            for i in 0..d {
                                let obj = match style {
                                    0 | 4 => false,
                                    1 => true,
                                    2 => i % 2 == 0,
                                    _ => i % 2 == 1,
                                };
                                if obj {
                                    open.extend_from_slice(b"{\"a\":");
                                    close.push(b'}');
                                } else {
                                    open.push(b'[');
                                    close.push(b']');
                                }
                                if style == 4 && i % 9 == 0 {
                                    open.extend_from_slice(b"\r\n ");
                                }
                            }
                            close.reverse();
                            let mut t = match wrap {
                                1 => b"{\"x\":[".to_vec(),
                                2 => b"\n\n\r\n  ".to_vec(),
                                _ => vec![],
                            };
                            t.extend_from_slice(&open);
                            t.extend_from_slice(inner);
                            t.extend_from_slice(&close);
                            if wrap == 1 {
                                t.extend_from_slice(b"]}");
                            }
                            st.cases += 1;
                            st.nontrivial(hash_bytes(&t));
                            let a = check_input(&t, st)?;
                            st.class(if a { "accepted" } else { "rejected" });
                        }
                    }
                }
            }
            Ok(())
        },
    );
}
