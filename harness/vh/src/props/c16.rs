//! C16 — YAML index independent of the SIMD dispatch level (DESIGN §4 C16).
//!
//! Two halves:
//!  * kernels: every public `yaml::simd` kernel against a harness-side definition taken
//!    from its doc comment, over arbitrary buffers x every start offset. Runs in each
//!    configuration of the matrix (default = AVX2 on this host, `sse2` = SUCCINCTLY_SIMD
//!    clamp, `scalar-yaml` feature build).
//!  * whole index: the same seeded stream of inputs is indexed in each configuration and a
//!    full textual dump (build result, every bitvector, position tables, anchors, aliases,
//!    tags, comments, JSON and YAML output) is hashed per case; `vh merge` diffs the
//!    per-case hashes across configurations (E5).
use crate::engine::*;
use crate::isolate::IsoOpts;
use serde_json::json;
use succinctly::jq::document::IndentSpec;
use succinctly::yaml::simd as ys;
use succinctly::yaml::YamlIndex;

pub const RULE: &str = "kernels: buffers over a YAML-indicator-rich alphabet (runs of spaces/quotes/breaks up to 70 bytes, raw bytes), every start offset (and end), each public yaml::simd kernel vs a definition written from its doc comment. whole index: generated YAML streams (G-yaml, all presentation features), hand-rolled YAML-ish texts with long plain/quoted/block scalars and anchor names stretched across 16/32-byte boundaries by alignment prefixes, mutated texts and raw soups; identical per-case dump digests required across the default(AVX2) / SUCCINCTLY_SIMD=sse2 / scalar-yaml configurations. Non-trivial: input >= 48 bytes containing a quoted/plain/block scalar or anchor name that crosses an offset that is a multiple of 16; distinct by input hash.";

const ALPHA: &[u8] = b" \n\r\t\"'\\#:-[]{},a&*!|>%@`z\x00\x1f\x7f\x80\xff";

pub fn gen_buffer(u: &mut Src) -> Vec<u8> {
    let mut b = Vec::new();
    let segs = u.range(0, 12);
    for _ in 0..segs {
        match u.below(6) {
            0 => {
                // a run of one byte (long runs cross 16/32-byte chunks)
                let c = *u.pick(b" \n\r\"'\\a:-#");
                let n = u.range(1, 70);
                b.extend(std::iter::repeat(c).take(n));
            }
            1 => {
                let n = u.range(1, 40);
                b.extend(std::iter::repeat(b'a').take(n));
            }
            2 => {
                for _ in 0..u.range(1, 8) {
                    b.push(u.byte());
                }
            }
            3 => b.extend_from_slice(*u.pick(&[&b": "[..], b":\n", b":\t", b":\r", b":x", b": #", b" #", b"\r\n", b"\n  ", b"\n\n", b"\\\"", b"''"])),
            _ => {
                for _ in 0..u.range(1, 12) {
                    b.push(*u.pick(ALPHA));
                }
            }
        }
    }
    b
}

fn model_block_end(input: &[u8], start: usize, min_indent: usize) -> usize {
    // "Returns the start of the first line whose content sits at less than min_indent
    //  spaces, or input.len(); blank lines belong to the block; both \n and \r open a line"
    let n = input.len();
    let mut pos = start;
    while pos < n {
        if input[pos] == b'\n' || input[pos] == b'\r' {
            let ls = pos + 1;
            if ls >= n {
                return n;
            }
            let mut ind = 0;
            while ls + ind < n && input[ls + ind] == b' ' {
                ind += 1;
            }
            if ls + ind < n {
                let c = input[ls + ind];
                if c != b'\n' && c != b'\r' && ind < min_indent {
                    return ls;
                }
            }
        }
        pos += 1;
    }
    n
}

fn model_anchor_end(input: &[u8], start: usize) -> usize {
    // terminators: space, tab, LF, CR, [ ] { } ,  and ':' followed by whitespace
    let n = input.len();
    let mut p = start;
    while p < n {
        match input[p] {
            b' ' | b'\t' | b'\n' | b'\r' | b'[' | b']' | b'{' | b'}' | b',' => return p,
            b':' => {
                if p + 1 < n && matches!(input[p + 1], b' ' | b'\t' | b'\n' | b'\r') {
                    return p;
                }
            }
            _ => {}
        }
        p += 1;
    }
    n
}

pub fn check_kernels(b: &[u8], u: &mut Src, st: &mut Stats) -> Result<(), Fail> {
    let n = b.len();
    let info = || json!({"buffer": show_bytes(b), "hex": hex(&b[..n.min(300)]), "len": n});
    for start in 0..=n + 2 {
        // find_quote_or_escape / find_single_quote with a few ends
        let ends = [n, n + 5, start, start + 1, start + 16, start + 17, start + 33, u.range(0, n + 3)];
        for &end in &ends {
            let e = end.min(n);
            let m1 = if start >= end || start >= n { None } else { b[start..e].iter().position(|&c| c == b'"' || c == b'\\') };
            check_eq!("C16/kernel/find_quote_or_escape", m1, ys::find_quote_or_escape(b, start, end), {"case": info(), "start": start, "end": end});
            let m2 = if start >= end || start >= n { None } else { b[start..e].iter().position(|&c| c == b'\'') };
            check_eq!("C16/kernel/find_single_quote", m2, ys::find_single_quote(b, start, end), {"case": info(), "start": start, "end": end});
        }
        let m3 = if start >= n { 0 } else { b[start..].iter().take_while(|&&c| c == b' ').count() };
        check_eq!("C16/kernel/count_leading_spaces", m3, ys::count_leading_spaces(b, start), {"case": info(), "start": start});
        let m4 = if start >= n { None } else { b[start..].iter().position(|&c| c == b'\n') };
        check_eq!("C16/kernel/find_newline", m4, ys::find_newline(b, start), {"case": info(), "start": start});
        let m5 = if start >= n { n } else { b[start..].iter().position(|&c| c == b'"' || c == b'\\' || c < 0x20).map(|i| i + start).unwrap_or(n) };
        check_eq!("C16/kernel/find_json_escape", m5, ys::find_json_escape(b, start), {"case": info(), "start": start});
        st.evals(ends.len() as u64 * 2 + 3);
        if start <= n {
            check_eq!("C16/kernel/parse_anchor_name", model_anchor_end(b, start), ys::parse_anchor_name(b, start), {"case": info(), "start": start});
            for &mi in &[0usize, 1, 2, 3, 4, 8, 15, 16, 17, 33] {
                check_eq!("C16/kernel/find_block_scalar_end", Some(model_block_end(b, start, mi)), ys::find_block_scalar_end(b, start, mi), {"case": info(), "start": start, "min_indent": mi});
            }
            st.evals(11);
        }
        #[cfg(all(target_arch = "x86_64", not(feature = "scalar-yaml")))]
        {
            for has_cr in [false, true] {
                let r = if has_cr { ys::classify_yaml_chars::<true>(b, start) } else { ys::classify_yaml_chars::<false>(b, start) };
                if let Some(c) = r {
                    let w = c.width;
                    if !(w == 16 || w == 32) || start + w > n {
                        fail!("C16/kernel/classify/width", {"case": info(), "start": start, "width": w});
                    }
                    let mask = |f: &dyn Fn(u8) -> bool| -> u32 {
                        let mut m = 0u32;
                        for i in 0..w {
                            if f(b[start + i]) {
                                m |= 1 << i;
                            }
                        }
                        m
                    };
                    let lowbits = if w == 32 { u32::MAX } else { (1u32 << w) - 1 };
                    let exp = [
                        ("newlines", mask(&|c| c == b'\n'), c.newlines),
                        ("carriage_returns", if has_cr { mask(&|c| c == b'\r') } else { 0 }, c.carriage_returns),
                        ("colons", mask(&|c| c == b':'), c.colons),
                        ("hyphens", mask(&|c| c == b'-'), c.hyphens),
                        ("spaces", mask(&|c| c == b' '), c.spaces),
                        ("quotes_double", mask(&|c| c == b'"'), c.quotes_double),
                        ("quotes_single", mask(&|c| c == b'\''), c.quotes_single),
                        ("backslashes", mask(&|c| c == b'\\'), c.backslashes),
                        ("hash", mask(&|c| c == b'#'), c.hash),
                    ];
                    for (name, e, a) in exp {
                        // only the low `width` bits are meaningful (documented)
                        if e != a & lowbits {
                            fail!(format!("C16/kernel/classify/{}", name), {"case": info(), "start": start, "has_cr": has_cr, "width": w, "expected": format!("{:08x}", e), "actual": format!("{:08x}", a)});
                        }
                    }
                    st.evals(9);
                }
            }
        }
    }
    Ok(())
}

// ---------------------------------------------------------------- whole index

/// Hand-rolled YAML-ish text: mostly valid block YAML with long scalars; validity is not
/// required (the property quantifies over all byte strings).
pub fn gen_yamlish(u: &mut Src) -> Vec<u8> {
    let nl: &[u8] = *u.pick(&[&b"\n"[..], b"\n", b"\r\n", b"\r"]);
    let mut out = Vec::new();
    // alignment prefix: a comment line of 0..63 bytes shifts every later offset
    if u.bool() {
        let n = u.range(0, 63);
        out.push(b'#');
        out.extend(std::iter::repeat(b'x').take(n));
        out.extend_from_slice(nl);
    }
    let docs = u.range(1, 2);
    for d in 0..docs {
        if d > 0 || u.ratio(1, 4) {
            out.extend_from_slice(b"---");
            out.extend_from_slice(nl);
        }
        let mut budget = u.range(1, 14);
        yamlish_node(u, &mut out, 0, 3, nl, &mut budget);
    }
    out
}

fn long_words(u: &mut Src, out: &mut Vec<u8>, max: usize) {
    let n = u.range(1, max);
    let mut w = 0;
    while w < n {
        let l = u.range(1, 12);
        for _ in 0..l {
            out.push(b'a' + u.below(26) as u8);
        }
        w += l;
        if w < n {
            out.push(b' ');
            w += 1;
        }
    }
}

fn yamlish_scalar(u: &mut Src, out: &mut Vec<u8>, indent: usize, nl: &[u8]) {
    match u.below(12) {
        0 => long_words(u, out, 90),
        1 => {
            out.push(b'"');
            for _ in 0..u.range(0, 60) {
                match u.below(12) {
                    0 => out.extend_from_slice(b"\\\""),
                    1 => out.extend_from_slice(b"\\\\"),
                    2 => out.extend_from_slice(b"\\n"),
                    3 => out.extend_from_slice(b"\\u00e9"),
                    4 => out.extend_from_slice("é".as_bytes()),
                    5 => out.push(b'\''),
                    6 => out.extend_from_slice(b": "),
                    7 => out.extend_from_slice(b" #"),
                    _ => out.push(b'a' + u.below(26) as u8),
                }
            }
            out.push(b'"');
        }
        2 => {
            out.push(b'\'');
            for _ in 0..u.range(0, 60) {
                match u.below(10) {
                    0 => out.extend_from_slice(b"''"),
                    1 => out.push(b'"'),
                    2 => out.push(b'\\'),
                    3 => out.extend_from_slice(b": "),
                    _ => out.push(b'a' + u.below(26) as u8),
                }
            }
            out.push(b'\'');
        }
        3 => {
            // block scalar
            out.push(*u.pick(b"|>"));
            match u.below(3) {
                0 => out.push(b'-'),
                1 => out.push(b'+'),
                _ => {}
            }
            out.extend_from_slice(nl);
            let lines = u.range(1, 5);
            for i in 0..lines {
                if u.ratio(1, 6) {
                    out.extend_from_slice(nl); // blank line inside the block
                    continue;
                }
                out.extend(std::iter::repeat(b' ').take(indent + 2 + if u.ratio(1, 8) { 2 } else { 0 }));
                long_words(u, out, 50);
                if i + 1 < lines {
                    out.extend_from_slice(nl);
                }
            }
        }
        4 => {
            out.push(b'&');
            for _ in 0..u.range(1, 40) {
                out.push(*u.pick(b"abcdefgh0123456789_-"));
            }
            out.push(b' ');
            long_words(u, out, 20);
        }
        5 => out.extend_from_slice(b"*a"),
        6 => out.extend_from_slice(*u.pick(&[&b"null"[..], b"~", b"true", b"false", b"123", b"-4.5e3", b"0x1F", b"", b"1_000"])),
        7 => {
            out.push(b'[');
            for i in 0..u.range(0, 5) {
                if i > 0 {
                    out.extend_from_slice(b", ");
                }
                long_words(u, out, 14);
            }
            out.push(b']');
        }
        8 => {
            out.push(b'{');
            for i in 0..u.range(0, 4) {
                if i > 0 {
                    out.extend_from_slice(b", ");
                }
                out.push(b'k');
                out.push(b'0' + i as u8);
                out.extend_from_slice(b": ");
                long_words(u, out, 10);
            }
            out.push(b'}');
        }
        9 => {
            out.extend_from_slice(b"!!str ");
            long_words(u, out, 10);
        }
        _ => long_words(u, out, 20),
    }
    if u.ratio(1, 6) {
        out.extend_from_slice(b" # ");
        long_words(u, out, 40);
    }
}

fn yamlish_node(u: &mut Src, out: &mut Vec<u8>, indent: usize, depth: usize, nl: &[u8], budget: &mut usize) {
    let n = u.range(1, 4);
    let seq = u.bool();
    for i in 0..n {
        if *budget == 0 {
            return;
        }
        *budget -= 1;
        out.extend(std::iter::repeat(b' ').take(indent));
        if seq {
            out.extend_from_slice(b"- ");
        } else {
            if u.ratio(1, 10) {
                out.extend_from_slice(b"&a ");
            }
            out.push(b'k');
            out.push(b'a' + (i as u8 % 26));
            for _ in 0..u.range(0, 20) {
                out.push(b'a' + u.below(26) as u8);
            }
            out.extend_from_slice(b": ");
        }
        if depth > 0 && u.ratio(1, 3) {
            if seq && u.bool() {
                // inline mapping after the dash
                out.extend_from_slice(b"x: ");
                yamlish_scalar(u, out, indent + 2, nl);
                out.extend_from_slice(nl);
                out.extend(std::iter::repeat(b' ').take(indent + 2));
                out.extend_from_slice(b"y: ");
                yamlish_scalar(u, out, indent + 2, nl);
                out.extend_from_slice(nl);
            } else {
                while out.last() == Some(&b' ') {
                    out.pop();
                }
                out.extend_from_slice(nl);
                yamlish_node(u, out, indent + 2, depth - 1, nl, budget);
            }
        } else {
            yamlish_scalar(u, out, indent, nl);
            out.extend_from_slice(nl);
        }
    }
}

/// G-yaml stream (valid by construction). TODO(after merge of gen/yaml.rs): use it here.
fn gen_gyaml(u: &mut Src) -> Vec<u8> {
    use crate::gen::yaml as gy;
    // every presentation device on, no finding shape avoided: C16 is differential, so
    // loader defects show identically in every configuration
    let mut o = gy::YOpts::full();
    o.max_nodes = 40;
    let s = gy::gen_stream(u, &o);
    let mut t = gy::render(&s, u, &o).text;
    // alignment prefix: shifts every later offset across 16/32-byte boundaries
    if u.bool() {
        let n = u.range(0, 63);
        let mut p = vec![b'#'];
        p.extend(std::iter::repeat(b'x').take(n));
        p.push(b'\n');
        p.extend_from_slice(&t);
        t = p;
    }
    t
}

pub fn mutate(u: &mut Src, t: &mut Vec<u8>) {
    for _ in 0..u.range(1, 3) {
        if t.is_empty() {
            t.push(u.byte());
            continue;
        }
        let i = u.below(t.len());
        match u.below(5) {
            0 => t[i] = u.byte(),
            1 => {
                t.remove(i);
            }
            2 => t.insert(i, *u.pick(ALPHA)),
            3 => {
                let j = u.below(t.len());
                t.swap(i, j);
            }
            _ => t.truncate(i),
        }
    }
}

fn words_hex(w: &[u64]) -> String {
    let mut s = String::with_capacity(w.len() * 17);
    for x in w {
        s.push_str(&format!("{:016x},", x));
    }
    s
}

/// The full textual dump of everything C16 names, for one input, in this configuration.
pub fn dump_index(text: &[u8]) -> String {
    let mut d = String::new();
    let idx = match catch(|| YamlIndex::build(text)) {
        Err((loc, msg)) => return format!("build: PANIC {} {}", panic_sig(&loc), msg),
        Ok(Err(e)) => return format!("build: Err {:?} | {}", e, e),
        Ok(Ok(i)) => i,
    };
    d.push_str("build: Ok\n");
    d.push_str(&format!("ib[{}]: {}\n", idx.ib_len(), words_hex(idx.ib())));
    let bp = idx.bp();
    let bplen = bp.len();
    let nw = bplen.div_ceil(64);
    let mut bw: Vec<u64> = bp.words().iter().take(nw).copied().collect();
    if bplen % 64 != 0 {
        if let Some(l) = bw.last_mut() {
            *l &= (1u64 << (bplen % 64)) - 1;
        }
    }
    d.push_str(&format!("bp[{}]: {}\n", bplen, words_hex(&bw)));
    d.push_str(&format!("ty[{}]: {}\n", idx.ty_len(), words_hex(idx.ty())));
    let lim = bplen.min(6000);
    let r = catch(|| {
        let mut s = String::new();
        for p in 0..lim {
            if !bp.is_open(p) {
                continue;
            }
            s.push_str(&format!(
                "{}: c={} pos={:?} end={:?} alias={} tgt={:?} an={:?} aan={:?} tag={:?} cm={:?}\n",
                p,
                idx.is_container(p),
                idx.bp_to_text_pos(p),
                idx.bp_to_text_end_pos(p),
                idx.is_alias(p),
                idx.get_alias_target(p),
                idx.get_anchor_name(p),
                idx.get_alias_anchor_name(p),
                idx.get_tag(p),
                idx.get_line_comment(p),
            ));
        }
        s
    });
    match r {
        Ok(s) => d.push_str(&s),
        Err((loc, msg)) => d.push_str(&format!("nodes: PANIC {} {}\n", panic_sig(&loc), msg)),
    }
    match catch(|| idx.root(text).to_json_document()) {
        Ok(j) => d.push_str(&format!("json: {}\n", j)),
        Err((loc, msg)) => d.push_str(&format!("json: PANIC {} {}\n", panic_sig(&loc), msg)),
    }
    match catch(|| {
        let mut o = String::new();
        let r = idx.root(text).stream_yaml_document(&mut o, IndentSpec::spaces(2), false);
        (o, r.is_ok())
    }) {
        Ok((y, ok)) => d.push_str(&format!("yaml(ok={}): {}\n", ok, y)),
        Err((loc, msg)) => d.push_str(&format!("yaml: PANIC {} {}\n", panic_sig(&loc), msg)),
    }
    d
}

fn crosses_16(text: &[u8]) -> bool {
    // a quoted/plain/block scalar or anchor name token of >= 2 bytes spanning a multiple of 16:
    // approximated as any run of non-break, non-space bytes, or a quoted region, that does
    let mut i = 0;
    let n = text.len();
    while i < n {
        let c = text[i];
        if c == b'"' || c == b'\'' {
            let q = c;
            let s = i;
            i += 1;
            while i < n && text[i] != q {
                i += 1;
            }
            if i / 16 != s / 16 {
                return true;
            }
        } else if c == b'&' || c.is_ascii_alphabetic() {
            let s = i;
            while i < n && !matches!(text[i], b'\n' | b'\r' | b':' | b'#') {
                i += 1;
            }
            if i > s + 1 && (i - 1) / 16 != s / 16 {
                return true;
            }
        }
        i += 1;
    }
    false
}

pub fn run(cx: &mut Ctx) {
    cx.assume("kernel definitions are written from the doc comments of src/yaml/simd/{mod,scalar}.rs");
    cx.assume("SIMD level is process-global: each configuration is a separate process over the same seeded case stream; equality is decided on per-case dump hashes (64-bit) by vh merge");
    if !std::is_x86_feature_detected!("avx2") {
        cx.note("host has no AVX2: the default configuration runs the SSE2 kernels too");
    }
    cx.check(
        "kernels-vs-definition",
        "buffers x every start offset; each kernel vs its documented definition",
        Budget { quick: 30_000, thorough: 1_500_000, max_len: 512 },
        |u, st| {
            let b = gen_buffer(u);
            st.class_if(b.len() >= 33, "len>=33");
            st.class_if(b.len() >= 65, "len>=65");
            if b.len() >= 17 {
                st.nontrivial(hash_bytes(&b));
            }
            st.size(b.len());
            st.sample(if b.len() >= 33 { "long" } else { "short" }, || json!(show_bytes(&b)));
            st.describe(|| json!({"buffer_hex": hex(&b), "buffer": show_bytes(&b)}));
            check_kernels(&b, u, st)
        },
    );
    cx.require_class("kernels-vs-definition", "len>=33", 100);

    cx.check_isolated(
        "index-dump",
        "whole-index dump per case, hashed; compared across configurations by vh merge",
        Budget { quick: 24_000, thorough: 1_000_000, max_len: 3000 },
        IsoOpts { watchdog_s: 30, chunk: 1500, hang_is_inconclusive: true, ..Default::default() },
        |u, st| {
            let kind = u.weighted(&[5, 4, 3, 1]);
            let mut text = match kind {
                0 | 2 => gen_gyaml(u),
                1 => gen_yamlish(u),
                _ => {
                    let n = u.range(0, 200);
                    (0..n).map(|_| *u.pick(ALPHA)).collect()
                }
            };
            if kind == 2 || (kind == 1 && u.ratio(1, 4)) {
                mutate(u, &mut text);
            }
            let dump = dump_index(&text);
            let ok = dump.starts_with("build: Ok");
            st.class(["gyaml", "yamlish", "gyaml-mutated", "soup"][kind]);
            st.class_if(ok, "build-ok");
            st.class_if(!ok, "build-err");
            st.class_if(dump.contains("PANIC"), "panic-in-dump");
            st.class_if(text.contains(&b'\r'), "has-CR");
            let nt = text.len() >= 48 && crosses_16(&text);
            st.class_if(nt, "nontrivial");
            st.class_if(nt && ok, "nontrivial-and-build-ok");
            if nt {
                st.nontrivial(hash_bytes(&text));
            }
            st.size(text.len());
            st.evals(1);
            st.sample(if ok { "ok" } else { "err" }, || json!(show_bytes(&text)));
            st.describe(|| json!({"text": show_bytes(&text), "text_hex": hex(&text)}));
            st.dump(|| dump);
            Ok(())
        },
    );
    cx.require_class("index-dump", "nontrivial-and-build-ok", 500);
    cx.require_class("index-dump", "has-CR", 200);
}
