//! C20 — DSV index independent of engine (DESIGN §4 C20).
use crate::engine::*;
use crate::gen::dsv::{self, Cfg};
use serde_json::json;
use succinctly::dsv::{build_index, build_index_scalar, simd, DsvConfig, DsvIndex};

pub const RULE: &str = "texts of 0..1000 bytes (64 KiB thorough) over alphabets rich in the three special bytes: structured rows, byte soups, quote runs of 1..5 planted at offsets = 63/0/1 mod 64, quoted regions of 64..400 bytes full of delimiters/separators crossing 64-byte chunks, marker-free 64-byte words; configurations: standard, every ordered triple of distinct bytes from the pool {, ; | TAB SP \" ' \\ LF CR NUL a 0x80 0xFF} (all 2184 reached), random distinct triples. Reference dsv::build_index_scalar vs simd::sse2, simd::avx2, simd::bmi2 (CPU has both) and the dispatcher dsv::build_index: marker_count, row_count, the first len bits of both bit vectors, select1(k) for every k (+3 past the end), rank1 at every position 0..=len+1. Non-trivial: >=65 bytes with a quoted region that crosses a 64-byte chunk boundary; distinct by hash(text,cfg).";

pub fn to_config(c: Cfg) -> DsvConfig {
    DsvConfig { delimiter: c.delimiter, quote_char: c.quote, newline: c.newline }
}

type Builder = fn(&[u8], &DsvConfig) -> DsvIndex;

pub fn engines() -> Vec<(&'static str, Builder)> {
    let mut v: Vec<(&'static str, Builder)> = vec![("dispatch", build_index as Builder), ("sse2", simd::sse2::build_index_simd as Builder)];
    // the avx2 / bmi2 entry points are safe fns whose SAFETY comment requires the caller to have
    // verified the CPU features; only called when detected
    if is_x86_feature_detected!("avx2") {
        v.push(("avx2", simd::avx2::build_index_simd as Builder));
        if is_x86_feature_detected!("bmi2") {
            v.push(("bmi2", simd::bmi2::build_index_simd as Builder));
        }
    }
    v
}

fn bit(words: &[u64], i: usize) -> bool {
    words.get(i / 64).map(|w| (w >> (i % 64)) & 1 == 1).unwrap_or(false)
}

/// quoted region (toggle semantics) that contains a 64-byte chunk boundary
fn quoted_region_crosses_chunk(text: &[u8], c: Cfg) -> bool {
    let mut open: Option<usize> = None;
    for (i, &b) in text.iter().enumerate() {
        if b == c.quote {
            match open {
                None => open = Some(i),
                Some(s) => {
                    if s / 64 != i / 64 {
                        return true;
                    }
                    open = None;
                }
            }
        }
    }
    matches!(open, Some(s) if s / 64 != (text.len().saturating_sub(1)) / 64)
}

pub fn compare(text: &[u8], c: Cfg, eng: &[(&'static str, Builder)], full: bool, st: &mut Stats) -> Result<(), Fail> {
    let config = to_config(c);
    let reference = build_index_scalar(text, &config);
    let len = text.len();
    let info = || json!({"text_hex": hex(&text[..len.min(4096)]), "len": len, "text": show_bytes(text), "delimiter": c.delimiter, "quote": c.quote, "newline": c.newline});
    let rl = reference.as_lightweight();
    for (name, build) in eng {
        let idx = build(text, &config);
        let tag = |what: &str| format!("C20/{}/{}", name, what);
        check_eq!(tag("marker_count"), reference.marker_count(), idx.marker_count(), {"case": info()});
        check_eq!(tag("row_count"), reference.row_count(), idx.row_count(), {"case": info()});
        check_eq!(tag("is_empty"), reference.is_empty(), idx.is_empty(), {"case": info()});
        let il = idx.as_lightweight();
        check_eq!(tag("text_len"), rl.text_len, il.text_len, {"case": info()});
        // marked positions: the first len bits of both vectors
        for i in 0..len {
            if bit(&rl.markers, i) != bit(&il.markers, i) {
                let inq = if bit(&rl.markers, i) { "missing-marker" } else { "extra-marker" };
                fail!(tag(&format!("markers-bit/{}", inq)), {"case": info(), "position": i, "chunk_offset": i % 64});
            }
            if bit(&rl.newlines, i) != bit(&il.newlines, i) {
                let inq = if bit(&rl.newlines, i) { "missing-newline" } else { "extra-newline" };
                fail!(tag(&format!("newlines-bit/{}", inq)), {"case": info(), "position": i, "chunk_offset": i % 64});
            }
        }
        st.evals(4 + 2 * len as u64);
        if full {
            let mc = reference.marker_count();
            for k in 0..mc + 3 {
                check_eq!(tag("markers_select1"), reference.markers_select1(k), idx.markers_select1(k), {"case": info(), "k": k});
            }
            let nc = reference.row_count();
            for k in 0..nc + 3 {
                check_eq!(tag("newlines_select1"), reference.newlines_select1(k), idx.newlines_select1(k), {"case": info(), "k": k});
            }
            for i in 0..=len + 1 {
                check_eq!(tag("markers_rank1"), reference.markers_rank1(i), idx.markers_rank1(i), {"case": info(), "i": i});
                check_eq!(tag("newlines_rank1"), reference.newlines_rank1(i), idx.newlines_rank1(i), {"case": info(), "i": i});
            }
            for k in [usize::MAX, usize::MAX / 2, 1 << 32] {
                check_eq!(tag("markers_select1"), reference.markers_select1(k), idx.markers_select1(k), {"case": info(), "k": k});
                check_eq!(tag("markers_rank1"), reference.markers_rank1(k), idx.markers_rank1(k), {"case": info(), "i": k});
                check_eq!(tag("newlines_select1"), reference.newlines_select1(k), idx.newlines_select1(k), {"case": info(), "k": k});
                check_eq!(tag("newlines_rank1"), reference.newlines_rank1(k), idx.newlines_rank1(k), {"case": info(), "i": k});
            }
            st.evals((mc + nc + 6 + 2 * (len + 2) + 12) as u64);
        }
    }
    Ok(())
}

pub fn classify(text: &[u8], c: Cfg, kind: dsv::TextKind, cfg_kind: &str, st: &mut Stats) {
    let crosses = quoted_region_crosses_chunk(text, c);
    let nt = text.len() >= 65 && crosses;
    if nt {
        st.nontrivial(mix64(hash_bytes(text) ^ ((c.delimiter as u64) << 16 | (c.quote as u64) << 8 | c.newline as u64)));
    }
    st.class_if(nt, "nontrivial");
    st.class(&format!("text-{:?}", kind));
    st.class(cfg_kind);
    st.class_if(c.quote != b'"', "quote-not-doublequote");
    st.class_if(c.newline != b'\n', "newline-not-LF");
    st.class_if(c.delimiter >= 0x80 || c.quote >= 0x80 || c.newline >= 0x80, "special-byte>=0x80");
    st.class_if(c.delimiter == 0 || c.quote == 0 || c.newline == 0, "special-byte-NUL(tail padding value)");
    st.class_if(text.iter().enumerate().any(|(i, &b)| b == c.quote && i % 64 == 63), "quote-at-bit-63");
    st.class_if(text.iter().enumerate().any(|(i, &b)| b == c.quote && i % 64 == 0 && i > 0), "quote-at-bit-0-of-later-chunk");
    let nq = text.iter().filter(|&&b| b == c.quote).count();
    st.class_if(nq % 2 == 1, "unbalanced-quotes");
    st.class_if(text.len() > 64 && text.len() % 64 != 0, "len>64-with-partial-last-chunk");
    st.class_if(text.len() % 64 == 0 && !text.is_empty(), "len-multiple-of-64");
    st.class_if(text.len() >= 192, "len>=3-chunks");
    // odd number of quotes inside one 64-byte chunk -> the carry flips across the boundary
    let carry_flip = text.chunks(64).take(text.len() / 64).any(|ch| ch.iter().filter(|&&b| b == c.quote).count() % 2 == 1);
    st.class_if(carry_flip, "chunk-with-odd-quote-count(carry flips)");
    st.size(text.len());
}

pub fn run(cx: &mut Ctx) {
    cx.assume("differential only: the in-repo scalar parser is the reference the statement names (its agreement with an independent splitter model is C21's business)");
    cx.assume("host CPU has AVX2 and BMI2, so all four x86 engines run; dispatch = bmi2 when has_fast_bmi2() else avx2; NEON/SVE2 are out of reach on x86_64");
    let eng = engines();
    cx.extra.insert("engines".into(), json!(eng.iter().map(|e| e.0).collect::<Vec<_>>()));
    if eng.len() < 4 {
        cx.note(format!("only {} of 4 engines available on this CPU", eng.len()));
    }

    for (name, v) in cx.replays.clone() {
        if v["kind"] == "input" {
            let t = unhex(v["input"]["text_hex"].as_str().unwrap_or(""));
            let g = |k: &str| v["input"][k].as_u64().unwrap_or(0) as u8;
            let c = Cfg { delimiter: g("delimiter"), quote: g("quote"), newline: g("newline") };
            let mut st = Stats::default();
            let r = if c.delimiter != c.quote && c.quote != c.newline && c.delimiter != c.newline { compare(&t, c, &eng, true, &mut st).err() } else { None };
            cx.replay_outcome(&name, r);
        }
    }

    let max = if cx.tier == Tier::Quick { 1000 } else { 4000 };
    let eng1 = eng.clone();
    cx.check(
        "engines-vs-scalar",
        RULE,
        Budget { quick: 800_000, thorough: 20_000_000, max_len: 9000 },
        move |u, st| {
            let (c, cfg_kind) = dsv::cfg(u);
            let (t, kind) = dsv::text(u, c, max);
            classify(&t, c, kind, cfg_kind, st);
            st.sample(&format!("{:?}", kind), || json!({"len": t.len(), "cfg": [c.delimiter, c.quote, c.newline], "head": show_bytes(&t[..t.len().min(100)])}));
            st.describe(|| json!({"text_hex": hex(&t), "delimiter": c.delimiter, "quote": c.quote, "newline": c.newline}));
            compare(&t, c, &eng1, true, st)
        },
    );
    for cl in [
        "nontrivial",
        "quote-at-bit-63",
        "quote-at-bit-0-of-later-chunk",
        "unbalanced-quotes",
        "chunk-with-odd-quote-count(carry flips)",
        "len>64-with-partial-last-chunk",
        "len-multiple-of-64",
        "cfg-pool-triple",
        "cfg-random-triple",
        "special-byte>=0x80",
        "special-byte-NUL(tail padding value)",
        "text-LongQuoted",
        "text-QuoteHeavy",
    ] {
        cx.require_class("engines-vs-scalar", cl, 50);
    }

    // every ordered triple of distinct pool bytes, each on a fixed family of adversarial texts (complete family)
    let eng2 = eng.clone();
    cx.exhaustive(
        "every-pool-triple",
        "all 2184 ordered triples of distinct pool bytes x 8 deterministic texts built from the triple (quotes at 62..65, 127/128, quoted region spanning two chunks, odd/even quote runs, specials in the padded tail)",
        true,
        move |shard, nshards, st| {
            for k in 0..dsv::pool_triples() {
                if k % nshards != shard {
                    continue;
                }
                let c = dsv::pool_triple(k);
                for t in fixed_texts(c) {
                    compare(&t, c, &eng2, true, st)?;
                    st.cases += 1;
                    if t.len() >= 65 && quoted_region_crosses_chunk(&t, c) {
                        st.nontrivial(mix64(hash_bytes(&t) ^ k as u64));
                    }
                }
                st.class("triples");
            }
            Ok(())
        },
    );

    if cx.tier == Tier::Thorough {
        let eng3 = eng.clone();
        cx.check(
            "engines-vs-scalar-large",
            "as engines-vs-scalar with texts up to 64 KiB built by tiling generated pieces; bit vectors compared in full, rank/select sampled",
            Budget { quick: 0, thorough: 60_000, max_len: 9000 },
            move |u, st| {
                let (c, cfg_kind) = dsv::cfg(u);
                let target = u.range(4000, 65536);
                let mut t: Vec<u8> = Vec::with_capacity(target + 4096);
                let mut kind = dsv::TextKind::Soup;
                while t.len() < target {
                    let (piece, k) = dsv::text(u, c, 1500);
                    kind = k;
                    let reps = 1 + u.below(6);
                    for _ in 0..reps {
                        t.extend_from_slice(&piece);
                        if u.ratio(1, 3) {
                            t.push(c.quote);
                        }
                    }
                    if piece.is_empty() {
                        t.push(b'x');
                    }
                }
                classify(&t, c, kind, cfg_kind, st);
                st.describe(|| json!({"text_hex": hex(&t), "delimiter": c.delimiter, "quote": c.quote, "newline": c.newline}));
                compare(&t, c, &eng3, false, st)
            },
        );
    }
}

fn fixed_texts(c: Cfg) -> Vec<Vec<u8>> {
    let (d, q, n) = (c.delimiter, c.quote, c.newline);
    let o = {
        let mut b = b'x';
        while b == d || b == q || b == n {
            b += 1;
        }
        b
    };
    let mut out = vec![];
    // 1: quote at 63, specials after, closing quote at 64
    for (open, close) in [(63usize, 64usize), (62, 63), (0, 127), (63, 128), (64, 191), (1, 65)] {
        let mut t = vec![o; 200];
        for i in (0..200).step_by(3) {
            t[i] = if i % 2 == 0 { d } else { n };
        }
        t[open] = q;
        t[close] = q;
        out.push(t);
    }
    // 7: runs of quotes of length 1..5 ending at chunk boundaries, unbalanced overall
    let mut t = vec![];
    for run in 1..=5usize {
        while t.len() % 64 != 64 - run {
            t.push(if t.len() % 5 == 0 { d } else if t.len() % 7 == 0 { n } else { o });
        }
        for _ in 0..run {
            t.push(q);
        }
        t.push(d);
        t.push(n);
    }
    out.push(t);
    // 8: partial last chunk ending inside quotes with specials up to the last byte
    let mut t = vec![o; 70];
    t[60] = q;
    for i in 61..70 {
        t[i] = if i % 2 == 0 { d } else { n };
    }
    out.push(t);
    out
}
