//! C32 — simple-cursor JSON index navigates valid documents exactly (DESIGN §4 C32).
//!
//! Oracle: by construction. The G-json renderer records, while it writes the text, the
//! position of every `{ } [ ] , :` it emits outside strings (`structurals`) and the byte
//! span of every value (`spans`: start, exclusive end, kind). Expected answers are read
//! off that table; nothing is re-derived from the text by scanning.
use crate::engine::*;
use crate::gen::json::{self, GenOpts, KeyPalette, Rendered, Role, StrPalette, J};
use serde_json::{json, Value};
use succinctly::json::SimpleJsonIndex;

pub const RULE: &str = "G-json documents (every string palette incl. structural bytes, quotes and backslashes inside strings and keys; random / none / spaced / pretty whitespace; every escape form), plain (1..300 nodes), tiled (a generated sub-document repeated 10..3000 times as array elements or object members, so IB spans many words and BP crosses its 512-bit and 32768-bit blocks) and deep (wrapped in 1..2000 nested containers, 6000 thorough). Expected structural list and spans come from the renderer's span table. Non-trivial: nesting >= 2 and at least one string (key or value) whose raw text contains one of {}[],: ; distinct by hash(text).";

fn info(r: &Rendered) -> Value {
    json!({"len": r.text.len(), "n_structurals": r.structurals.len(), "text": show_bytes(&r.text), "text_hex": hex(&r.text[..r.text.len().min(4096)])})
}

pub struct Case {
    pub kind: &'static str,
    pub j: J,
    pub r: Rendered,
}

fn opts(u: &mut Src, max_nodes: usize) -> GenOpts {
    GenOpts {
        max_depth: u.range(1, 9),
        max_nodes,
        dup_keys: true,
        strings: *u.pick(&[StrPalette::Full, StrPalette::Full, StrPalette::Ascii, StrPalette::AsciiPlain]),
        keys: *u.pick(&[KeyPalette::AsStrings, KeyPalette::AsStrings, KeyPalette::Hostile, KeyPalette::Ident]),
        numbers: 2,
        max_str_len: *u.pick(&[6, 24, 24, 80]),
    }
}

pub fn gen_case(u: &mut Src, deep_max: usize, tile_max: usize) -> Case {
    let (kind, j) = match u.weighted(&[8, 3, 3]) {
        0 => {
            let n = if u.ratio(1, 4) { u.range(40, 300) } else { u.range(1, 40) };
            let o = opts(u, n);
            ("plain", json::gen_value(u, &o))
        }
        1 => {
            let nn = u.range(1, 30);
            let mut o = opts(u, nn);
            o.max_str_len = o.max_str_len.min(12);
            let sub = json::gen_value(u, &o);
            let n = match u.below(8) {
                0 | 1 | 2 => u.range(10, 40),
                3 | 4 | 5 => u.range(40, 300),
                _ => u.range(300, tile_max),
            };
            // keep the document bounded (several library calls are O(text) each: structural_pos
            // scans the IB words from 0): total node budget 6000, sometimes 45000 so that BP
            // crosses its 32768-bit blocks
            let budget = if u.ratio(1, 4) { 15 * tile_max } else { 2 * tile_max };
            let n = n.min(budget / sub.node_count().max(1)).max(2);
            let tiled = if u.bool() {
                J::Arr((0..n).map(|_| sub.clone()).collect())
            } else {
                J::Obj((0..n).map(|i| (format!("k{}", i % 97), sub.clone())).collect())
            };
            let d = if u.ratio(1, 3) { u.range(1, 6) } else { 0 };
            ("tiled", json::wrap_deep(u, tiled, d))
        }
        _ => {
            let nn = u.range(1, 12);
            let o = opts(u, nn);
            let inner = json::gen_value(u, &o);
            let d = match u.below(4) {
                0 => u.range(1, 70),
                1 => u.range(120, 140),
                2 => u.range(250, 600),
                _ => u.range(600, deep_max),
            };
            ("deep", json::wrap_deep(u, inner, d))
        }
    };
    let ro = json::render_opts(u);
    let r = json::render(&j, u, ro);
    Case { kind, j, r }
}

fn raw_has_structural(b: &[u8]) -> bool {
    b.iter().any(|c| matches!(c, b'{' | b'}' | b'[' | b']' | b',' | b':'))
}

fn classify(c: &Case, st: &mut Stats) {
    let r = &c.r;
    // container nesting depth: a container span at depth d is nested d+1 deep
    let nest = r.spans.iter().filter(|s| s.kind == "array" || s.kind == "object").map(|s| s.depth + 1).max().unwrap_or(0);
    let str_struct = r.spans.iter().any(|s| s.kind == "string" && raw_has_structural(&r.text[s.start..s.end]));
    let nt = nest >= 2 && str_struct;
    st.class(&format!("kind-{}", c.kind));
    st.class_if(nt, "nontrivial");
    if nt {
        st.nontrivial(hash_bytes(&r.text));
    }
    st.class_if(str_struct, "string-with-structural-bytes");
    st.class_if(r.spans.iter().any(|s| s.role == Role::Key && raw_has_structural(&r.text[s.start..s.end])), "key-with-structural-bytes");
    st.class_if(r.text.windows(3).any(|w| w[0] == b'\\' && w[1] == b'"' && matches!(w[2], b'{' | b'}' | b'[' | b']' | b',' | b':')), "escaped-quote-then-structural");
    st.class_if(r.text.windows(2).any(|w| w == b"\\\\"), "backslash-pair-in-string");
    let ns = r.structurals.len();
    st.class_if(ns == 0, "no-structurals(root-scalar)");
    st.class_if(r.text.len() > 64, "ib>1-word");
    st.class_if(ns * 2 > 512, "bp>512-bits");
    st.class_if(ns * 2 > 32768, "bp>32768-bits");
    st.class_if(ns * 2 > 262144, "bp>262144-bits");
    st.class_if(nest >= 129, "nesting>=129");
    st.class_if(nest >= 1000, "nesting>=1000");
    st.class_if(r.spans.iter().any(|s| (s.kind == "array" || s.kind == "object") && s.end - s.start == 2), "empty-container");
    st.class_if(r.text.len() % 64 == 0, "len%64==0");
    st.class_if(r.n_ws_gaps > 0, "has-whitespace");
    st.size(r.text.len());
    let cls = if nt { "nontrivial" } else { c.kind };
    st.sample(cls, || json!({"kind": c.kind, "len": r.text.len(), "structurals": ns, "nesting": nest, "text": show_bytes(&r.text[..r.text.len().min(200)])}));
}

fn sample_indices(u: &mut Src, n: usize, dense_limit: usize, extra: usize) -> Vec<usize> {
    if n <= dense_limit {
        return (0..n).collect();
    }
    let mut v: Vec<usize> = vec![0, 1, 2, n - 1, n - 2, n / 2];
    // neighbourhoods of 64-multiples (IB words) — sampled
    for _ in 0..extra {
        v.push(u.below(n));
    }
    let s = u.below(n);
    v.extend(s..(s + 200).min(n));
    v
}

pub fn check_case(c: &Case, u: &mut Src, st: &mut Stats) -> Result<(), Fail> {
    let r = &c.r;
    let text = &r.text[..];
    let s = &r.structurals;
    let n = s.len();
    let idx = SimpleJsonIndex::build(text);

    // ---- the list
    check_eq!("C32/structural_count", n, idx.structural_count(), {"case": info(r)});
    // the iterator costs O(words) per item: list everything for n <= 6000, else a 3000 prefix
    let lim = if n <= 6000 { n + 2 } else { 3000 };
    let listed: Vec<usize> = idx.structural_positions(text).take(lim).collect();
    if listed[..] != s[..lim.min(n)] {
        let i = listed.iter().zip(s.iter()).position(|(a, b)| a != b).unwrap_or(listed.len().min(n));
        fail!("C32/structural_positions", {"first_difference_at_ordinal": i, "expected": s.get(i), "actual": listed.get(i), "expected_count": n, "actual_count": listed.len(), "case": info(r)});
    }
    st.evals(2);
    let ks = sample_indices(u, n, 3000, 600);
    for &k in &ks {
        check_eq!("C32/structural_pos", Some(s[k]), idx.structural_pos(k), {"k": k, "case": info(r)});
    }
    for k in [n, n + 1, n + 63, n + 64, 1usize << 32, (1usize << 32) + 1, usize::MAX - 1, usize::MAX] {
        check_eq!("C32/structural_pos/past-end", None::<usize>, idx.structural_pos(k), {"k": k, "case": info(r)});
    }
    st.evals(ks.len() as u64 + 8);

    // ---- back to the ordinal
    for &k in &ks {
        check_eq!("C32/structural_index/at-structural", Some(k), idx.structural_index(s[k]), {"pos": s[k], "case": info(r)});
    }
    let len = text.len();
    let ps: Vec<usize> = if len <= 6000 {
        (0..len + 3).collect()
    } else {
        let mut v: Vec<usize> = (0..400).map(|_| u.below(len)).collect();
        v.extend([len - 1, len, len + 1, len + 63, len + 64]);
        let a = u.below(len);
        v.extend(a..(a + 300).min(len));
        v
    };
    for &p in &ps {
        let e = s.binary_search(&p).ok();
        check_eq!(if e.is_some() { "C32/structural_index/at-structural" } else { "C32/structural_index/not-structural" }, e, idx.structural_index(p), {"pos": p, "byte": text.get(p), "case": info(r)});
    }
    for p in [usize::MAX, usize::MAX - 63, 1usize << 32, len.next_multiple_of(64), len.next_multiple_of(64) + 1] {
        if p >= len {
            check_eq!("C32/structural_index/past-end", None::<usize>, idx.structural_index(p), {"pos": p, "case": info(r)});
        }
    }
    st.evals(ks.len() as u64 + ps.len() as u64 + 5);

    // ---- containers and values
    let containers: Vec<usize> = (0..r.spans.len()).filter(|&i| r.spans[i].kind == "array" || r.spans[i].kind == "object").collect();
    let csel = sample_indices(u, containers.len(), 1500, 300);
    for &ci in &csel {
        let sp = &r.spans[containers[ci]];
        check_eq!("C32/find_close", Some(sp.end - 1), idx.find_close(text, sp.start), {"open": sp.start, "depth": sp.depth, "case": info(r)});
        check_eq!("C32/skip_value/container", Some(sp.end), idx.skip_value(text, sp.start), {"start": sp.start, "case": info(r)});
    }
    st.evals(csel.len() as u64 * 2);
    let values: Vec<usize> = (0..r.spans.len()).filter(|&i| r.spans[i].role == Role::Value && !(r.spans[i].kind == "array" || r.spans[i].kind == "object")).collect();
    let vsel = sample_indices(u, values.len(), 3000, 600);
    for &vi in &vsel {
        let sp = &r.spans[values[vi]];
        check_eq!(format!("C32/skip_value/{}", sp.kind), Some(sp.end), idx.skip_value(text, sp.start), {"start": sp.start, "token": show_bytes(&text[sp.start..sp.end]), "case": info(r)});
    }
    st.evals(vsel.len() as u64);

    // find_close is documented to return None when `pos` is not at an open bracket/brace
    for _ in 0..20.min(len) {
        let p = u.below(len);
        if text[p] != b'{' && text[p] != b'[' {
            check_eq!("C32/find_close/not-an-open", None::<usize>, idx.find_close(text, p), {"pos": p, "byte": text[p], "case": info(r)});
        } else {
            // a bracket byte (structural or inside a string): only exercised
            let _ = idx.find_close(text, p);
        }
    }
    check_eq!("C32/find_close/past-end", None::<usize>, idx.find_close(text, len), {"case": info(r)});
    check_eq!("C32/skip_value/past-end", None::<usize>, idx.skip_value(text, len), {"case": info(r)});

    // ---- children(): stays inside the container, yields structural non-delimiter bytes
    // in increasing order, and includes the brackets of every immediate child container
    let csel2 = sample_indices(u, containers.len(), 40, 30);
    for &ci in &csel2 {
        let si = containers[ci];
        let sp = &r.spans[si];
        let (open, close) = (sp.start, sp.end - 1);
        let it = match idx.children(text, open) {
            Some(it) => it,
            None => fail!("C32/children/none-for-container", {"open": open, "case": info(r)}),
        };
        // bound the walk: at most the number of structurals inside
        let lo = s.partition_point(|&p| p <= open);
        let hi = s.partition_point(|&p| p < close);
        let got: Vec<usize> = it.take((hi - lo + 2).min(600)).collect();
        let truncated = got.len() == 600;
        let mut prev = open;
        for &p in &got {
            let ok = p > prev && p < close && s.binary_search(&p).is_ok() && text[p] != b',' && text[p] != b':';
            if !ok {
                fail!("C32/children/outside-or-not-structural", {"open": open, "close": close, "yielded": p, "previous": prev, "case": info(r)});
            }
            prev = p;
        }
        // immediate child containers: spans whose parent is this span (bounded scan forward)
        let mut k = si + 1;
        let mut seen = 0;
        while k < r.spans.len() && r.spans[k].start < close && seen < 400 {
            let ch = &r.spans[k];
            if ch.parent == Some(si) && (ch.kind == "array" || ch.kind == "object") {
                if truncated && got.last().map_or(true, |&l| ch.end - 1 > l) {
                    break;
                }
                if got.binary_search(&ch.start).is_err() || got.binary_search(&(ch.end - 1)).is_err() {
                    fail!("C32/children/misses-child-container", {"open": open, "child_open": ch.start, "child_close": ch.end - 1, "case": info(r)});
                }
            }
            k += 1;
            seen += 1;
        }
        st.evals(1);
    }
    st.digest(hash_bytes(text) ^ n as u64);
    Ok(())
}

/// Structured replay: `{"input": {"entropy_hex": .., "deep_max": .., "tile_max": ..}}` — the
/// document is regenerated from the entropy (the span table cannot be rebuilt from text alone
/// without a second parser, which would then be the oracle).
fn replay_input(v: &Value) -> Option<Fail> {
    let ent = unhex(v["input"]["entropy_hex"].as_str().unwrap_or(""));
    let deep_max = v["input"]["deep_max"].as_u64().unwrap_or(2000) as usize;
    let tile_max = v["input"]["tile_max"].as_u64().unwrap_or(3000) as usize;
    let mut st = Stats::default();
    let r = catch(|| {
        let mut u = Src::new(&ent);
        let c = gen_case(&mut u, deep_max, tile_max);
        let res = check_case(&c, &mut u, &mut st);
        let Case { j, .. } = c;
        json::drop_deep(j);
        res
    });
    match r {
        Ok(Ok(())) => None,
        Ok(Err(f)) => Some(f),
        Err((loc, msg)) => Some(Fail::new(format!("panic@{}", panic_sig(&loc)), json!({"panic": msg, "location": loc}))),
    }
}

pub fn run(cx: &mut Ctx) {
    cx.assume("expected structural positions and value spans are recorded by the harness renderer while it writes the text (G-json span table, self-tested against O-jsonval); SimpleJsonIndex is only given valid documents");
    cx.assume("children(): only the weak reading is asserted (inside the container, structural, not ',' or ':', increasing, includes immediate child containers' brackets) — the statement does not mention it and the in-repo tests pin that delimiters are skipped");
    for (name, v) in cx.replays.clone() {
        if v["kind"] == "input" {
            let r = replay_input(&v);
            cx.replay_outcome(&name, r);
        }
    }
    let (deep_max, tile_max) = if cx.tier == Tier::Quick { (2000, 3000) } else { (6000, 12000) };
    cx.check(
        "navigate-vs-span-table",
        RULE,
        Budget { quick: 20_000, thorough: 600_000, max_len: 5000 },
        |u, st| {
            let c = gen_case(u, deep_max, tile_max);
            classify(&c, st);
            st.describe(|| json!({"kind": c.kind, "len": c.r.text.len(), "text": show_bytes(&c.r.text), "text_hex": hex(&c.r.text[..c.r.text.len().min(16384)])}));
            let res = check_case(&c, u, st);
            let Case { j, .. } = c;
            json::drop_deep(j);
            res
        },
    );
    for cl in [
        "nontrivial",
        "kind-plain",
        "kind-tiled",
        "kind-deep",
        "string-with-structural-bytes",
        "key-with-structural-bytes",
        "escaped-quote-then-structural",
        "no-structurals(root-scalar)",
        "bp>512-bits",
        "bp>32768-bits",
        "nesting>=129",
        "nesting>=1000",
        "empty-container",
        "has-whitespace",
    ] {
        cx.require_class("navigate-vs-span-table", cl, 20);
    }
}
