//! C06 — JSON index navigation reproduces every valid document's value (DESIGN §4 C06).
//!
//! A G-json model is rendered to text with a span table; the index is built and walked
//! from `index.root(text)` with an explicit stack (documents reach depth 2000). Every
//! node (values *and* object keys: keys are BP nodes of their own, key/value alternate as
//! the children of an object) is compared with the model and with its recorded span.
use crate::engine::*;
use crate::gen::json::*;
use crate::oracle::jsonval;
use serde_json::{json, Value};
use succinctly::json::light::{JsonCursor, JsonElements, JsonFields, JsonIndex, StandardJson};

pub const RULE: &str = "G-json documents (model -> text + span table): nesting to 300 levels quick / 2000 thorough via wrap_deep, duplicate keys, every escape form incl. surrogate pairs, every number shape, 0-3 of the four whitespace bytes in every gap incl. around the root, empty containers, scalar roots; thorough adds 64 KiB - 4 MiB documents. The index is walked from the root with an explicit stack; every node (values and keys) is checked against the model value and its recorded span through value(), uncons, Iterator, find/find_cursor (last occurrence), get/get_fast, as_str, as_f64/as_i64, first_child/next_sibling/parent, children(), text_position/text_range/raw_bytes. Non-trivial: depth>=2 and >=1 escape and >=1 non-empty whitespace gap; distinct by hash(text).";

// ------------------------------------------------------------------ shared helpers
// (also used by C07 and C28)

/// Model node in document (pre-)order: what each span of the span table stands for.
#[derive(Clone, Copy)]
pub enum MNode<'a> {
    Key(&'a str),
    Val(&'a J),
}

/// Pre-order list of model nodes (keys included), same order as `Rendered::spans`.
pub fn model_nodes(root: &J) -> Vec<MNode<'_>> {
    let mut out = Vec::new();
    let mut stack: Vec<MNode> = vec![MNode::Val(root)];
    while let Some(n) = stack.pop() {
        out.push(n);
        if let MNode::Val(v) = n {
            match v {
                J::Arr(a) => {
                    for x in a.iter().rev() {
                        stack.push(MNode::Val(x));
                    }
                }
                J::Obj(f) => {
                    for (k, x) in f.iter().rev() {
                        stack.push(MNode::Val(x));
                        stack.push(MNode::Key(k));
                    }
                }
                _ => {}
            }
        }
    }
    out
}

/// first-kid / next-sibling tables over the span table (u32::MAX = none).
pub struct Shape {
    pub first_kid: Vec<u32>,
    pub next_sib: Vec<u32>,
    pub n_kids: Vec<u32>,
}

pub const NONE: u32 = u32::MAX;

pub fn shape(r: &Rendered) -> Shape {
    let n = r.spans.len();
    let mut first_kid = vec![NONE; n];
    let mut next_sib = vec![NONE; n];
    let mut last_kid = vec![NONE; n];
    let mut n_kids = vec![0u32; n];
    for (i, sp) in r.spans.iter().enumerate() {
        if let Some(p) = sp.parent {
            if last_kid[p] == NONE {
                first_kid[p] = i as u32;
            } else {
                next_sib[last_kid[p] as usize] = i as u32;
            }
            last_kid[p] = i as u32;
            n_kids[p] += 1;
        }
    }
    Shape { first_kid, next_sib, n_kids }
}

/// Deterministic expansion of a few entropy bytes into a long entropy stream, so that
/// megabyte documents still get varied per-gap / per-character rendering choices.
pub fn expand_entropy(seed: u64, n: usize) -> Vec<u8> {
    let mut v = Vec::with_capacity(n + 8);
    let mut x = seed;
    while v.len() < n {
        x = mix64(x);
        // small values dominate (most draws are small ranges); sprinkle full bytes
        let w = x.to_le_bytes();
        v.extend_from_slice(&w);
    }
    v.truncate(n);
    v
}

pub fn text_json(text: &[u8]) -> Value {
    if text.len() <= 6000 {
        json!({"text": show_bytes(text), "text_hex": hex(text), "len": text.len()})
    } else {
        json!({"text": show_bytes(text), "text_hex_prefix": hex(&text[..3000]), "len": text.len(), "hash": format!("{:016x}", hash_bytes(text))})
    }
}

fn kind_of<W>(v: &StandardJson<'_, W>) -> &'static str {
    match v {
        StandardJson::String(_) => "string",
        StandardJson::Number(_) => "number",
        StandardJson::Object(_) => "object",
        StandardJson::Array(_) => "array",
        StandardJson::Bool(_) => "boolean",
        StandardJson::Null => "null",
        StandardJson::Error(_) => "error",
    }
}

fn f64_same(model: f64, got: f64) -> bool {
    // bit-equal, except that the sign of zero is not promised by the docs
    if model == 0.0 && got == 0.0 {
        return true;
    }
    model.to_bits() == got.to_bits()
}

/// Compare one `StandardJson` with a model node, without descending into containers.
/// `raw` is the recorded source token (None when the caller has no span at hand).
pub fn shallow_check(
    v: &StandardJson<'_, Vec<u64>>,
    m: MNode<'_>,
    raw: Option<&[u8]>,
    via: &str,
    st: &mut Stats,
) -> Result<(), Fail> {
    st.evals(1);
    let mk = match m {
        MNode::Key(_) => "string",
        MNode::Val(j) => j.kind(),
    };
    if let StandardJson::Error(e) = v {
        fail!(format!("C06/{}/value-error", via), {"error": e, "model_kind": mk});
    }
    check_eq!(format!("C06/{}/kind", via), mk, kind_of(v), {"via": via});
    match (v, m) {
        (StandardJson::String(s), MNode::Key(k)) => check_str(s, k, raw, via)?,
        (StandardJson::String(s), MNode::Val(J::Str(k))) => check_str(s, k, raw, via)?,
        (StandardJson::Number(n), MNode::Val(J::Num(num))) => {
            check_eq!(format!("C06/{}/number-raw_bytes", via), show_bytes(num.text.as_bytes()), show_bytes(n.raw_bytes()), {"via": via});
            match n.as_f64() {
                Ok(f) => {
                    if !f64_same(num.value, f) {
                        fail!(format!("C06/{}/as_f64", via), {"literal": num.text, "expected": format!("{:e}", num.value), "actual": format!("{:e}", f), "expected_bits": format!("{:016x}", num.value.to_bits()), "actual_bits": format!("{:016x}", f.to_bits())});
                    }
                }
                Err(e) => fail!(format!("C06/{}/as_f64-err", via), {"literal": num.text, "error": format!("{:?}", e)}),
            }
            if let Some(i) = num.int {
                match n.as_i64() {
                    Ok(g) => check_eq!(format!("C06/{}/as_i64", via), i, g, {"literal": num.text}),
                    Err(e) => fail!(format!("C06/{}/as_i64-err", via), {"literal": num.text, "error": format!("{:?}", e)}),
                }
            }
        }
        (StandardJson::Bool(b), MNode::Val(J::Bool(c))) => {
            check_eq!(format!("C06/{}/bool", via), c, b, {"via": via});
        }
        (StandardJson::Array(e), MNode::Val(J::Arr(a))) => {
            check_eq!(format!("C06/{}/elements-is_empty", via), a.is_empty(), e.is_empty(), {"via": via});
        }
        (StandardJson::Object(f), MNode::Val(J::Obj(o))) => {
            check_eq!(format!("C06/{}/fields-is_empty", via), o.is_empty(), f.is_empty(), {"via": via});
        }
        _ => {}
    }
    Ok(())
}

fn check_str(s: &succinctly::json::light::JsonString<'_>, k: &str, raw: Option<&[u8]>, via: &str) -> Result<(), Fail> {
    match s.as_str() {
        Ok(got) => {
            if &*got != k {
                fail!(format!("C06/{}/as_str", via), {"expected": k, "actual": &*got, "expected_bytes": show_bytes(k.as_bytes()), "actual_bytes": show_bytes(got.as_bytes()), "raw": raw.map(show_bytes)});
            }
        }
        Err(e) => fail!(format!("C06/{}/as_str-err", via), {"expected": k, "error": format!("{:?}", e), "raw": raw.map(show_bytes)}),
    }
    if let Some(raw) = raw {
        check_eq!(format!("C06/{}/string-raw_bytes", via), show_bytes(raw), show_bytes(s.raw_bytes()), {"via": via});
        let (rb, esc) = s.raw_and_escaped();
        check_eq!(format!("C06/{}/raw_and_escaped-bytes", via), show_bytes(raw), show_bytes(rb), {"via": via});
        check_eq!(format!("C06/{}/raw_and_escaped-flag", via), raw.contains(&b'\\'), esc, {"raw": show_bytes(raw)});
    }
    Ok(())
}

/// Iteratively rebuild a model value from a `StandardJson` (numbers via `as_f64`),
/// used by C28 to read evaluation results. Err(description) on any decoding error.
pub fn std_to_j(v: StandardJson<'_, Vec<u64>>) -> Result<J, String> {
    enum Fr<'a> {
        Arr(Vec<J>, JsonElements<'a, Vec<u64>>),
        Obj(Vec<(String, J)>, Option<String>, JsonFields<'a, Vec<u64>>),
    }
    let mut stack: Vec<Fr> = vec![];
    let mut cur: Option<StandardJson<'_, Vec<u64>>> = Some(v);
    loop {
        // produce a finished value, or open a container
        let mut done: Option<J> = None;
        if let Some(v) = cur.take() {
            match v {
                StandardJson::Null => done = Some(J::Null),
                StandardJson::Bool(b) => done = Some(J::Bool(b)),
                StandardJson::Number(n) => {
                    let f = n.as_f64().map_err(|e| format!("as_f64: {:?}", e))?;
                    let text = String::from_utf8_lossy(n.raw_bytes()).to_string();
                    let int = n.as_i64().ok();
                    done = Some(J::Num(Num { text, value: f, int }));
                }
                StandardJson::String(s) => {
                    done = Some(J::Str(s.as_str().map_err(|e| format!("as_str: {:?}", e))?.into_owned()))
                }
                StandardJson::Array(e) => stack.push(Fr::Arr(vec![], e)),
                StandardJson::Object(f) => stack.push(Fr::Obj(vec![], None, f)),
                StandardJson::Error(e) => return Err(format!("StandardJson::Error({})", e)),
            }
        }
        loop {
            match stack.last_mut() {
                None => return done.ok_or_else(|| "no value".to_string()),
                Some(Fr::Arr(acc, rest)) => {
                    if let Some(d) = done.take() {
                        acc.push(d);
                    }
                    match rest.uncons() {
                        Some((x, r2)) => {
                            *rest = r2;
                            cur = Some(x);
                            break;
                        }
                        None => {
                            if let Some(Fr::Arr(acc, _)) = stack.pop() {
                                done = Some(J::Arr(acc));
                            }
                        }
                    }
                }
                Some(Fr::Obj(acc, key, rest)) => {
                    if let Some(d) = done.take() {
                        acc.push((key.take().unwrap_or_default(), d));
                    }
                    match rest.uncons() {
                        Some((fld, r2)) => {
                            *rest = r2;
                            let k = match fld.key() {
                                StandardJson::String(s) => s.as_str().map_err(|e| format!("key as_str: {:?}", e))?.into_owned(),
                                other => return Err(format!("key is {}", kind_of(&other))),
                            };
                            *key = Some(k);
                            cur = Some(fld.value());
                            break;
                        }
                        None => {
                            if let Some(Fr::Obj(acc, _, _)) = stack.pop() {
                                done = Some(J::Obj(acc));
                            }
                        }
                    }
                }
            }
        }
    }
}

// ------------------------------------------------------------------ the C06 walk

pub struct Doc {
    pub root: J,
    pub r: Rendered,
    pub opts: RenderOpts,
    pub wrapped: usize,
}

fn node_desc(r: &Rendered, i: usize) -> Value {
    let sp = &r.spans[i];
    json!({"span_index": i, "start": sp.start, "end": sp.end, "role": format!("{:?}", sp.role), "kind": sp.kind, "depth": sp.depth, "token": show_bytes(&r.text[sp.start..sp.end.min(sp.start + 120)])})
}

fn sample_indices(u: &mut Src, n: usize, all_below: usize, k: usize) -> Vec<usize> {
    if n <= all_below {
        return (0..n).collect();
    }
    let mut v = vec![0, 1, n / 2, n - 2, n - 1];
    for _ in 0..k {
        v.push(u.below(n));
    }
    v.sort();
    v.dedup();
    v
}

/// The whole C06 oracle for one document.
pub fn check_doc(d: &Doc, u: &mut Src, st: &mut Stats) -> Result<(), Fail> {
    let text = &d.r.text[..];
    let r = &d.r;
    let nodes = model_nodes(&d.root);
    if nodes.len() != r.spans.len() {
        fail!("harness/C06/span-table-size", {"nodes": nodes.len(), "spans": r.spans.len()});
    }
    let sh = shape(r);
    let index = JsonIndex::build(text);
    let root = index.root(text);

    // root moves
    if let Some(p) = root.parent() {
        fail!("C06/parent/root-has-parent", {"bp": p.bp_position()});
    }
    if let Some(p) = root.next_sibling() {
        fail!("C06/next_sibling/root-has-sibling", {"bp": p.bp_position()});
    }
    st.evals(2);

    let mut stack: Vec<(JsonCursor<'_, Vec<u64>>, u32)> = vec![(root, 0)];
    let mut visited = 0usize;
    while let Some((c, ni)) = stack.pop() {
        let i = ni as usize;
        visited += 1;
        let sp = &r.spans[i];
        let m = nodes[i];
        let raw = &text[sp.start..sp.end];
        let cls = if sp.kind == "array" || sp.kind == "object" { "container" } else { sp.kind };

        // positions and spans
        check_eq!("C06/text_position", Some(sp.start), c.text_position(), {"node": node_desc(r, i)});
        check_eq!(format!("C06/text_range/{}", cls), Some((sp.start, sp.end)), c.text_range(), {"node": node_desc(r, i)});
        match c.raw_bytes() {
            Some(b) if b == raw => {}
            other => fail!(format!("C06/raw_bytes/{}", cls), {"node": node_desc(r, i), "actual": other.map(show_bytes)}),
        }
        st.evals(3);

        // value
        let v = c.value();
        shallow_check(&v, m, Some(raw), "value", st).map_err(|mut f| {
            if let Some(o) = f.detail.as_object_mut() {
                o.insert("node".into(), node_desc(r, i));
            }
            f
        })?;

        // children: first_child / next_sibling / parent / children()
        let nk = sh.n_kids[i] as usize;
        let mut kid_cursors: Vec<JsonCursor<'_, Vec<u64>>> = Vec::with_capacity(nk);
        let mut kid_idx: Vec<u32> = Vec::with_capacity(nk);
        {
            let mut e = sh.first_kid[i];
            let mut a = c.first_child();
            loop {
                match (e != NONE, a) {
                    (false, None) => break,
                    (true, Some(ac)) => {
                        match ac.parent() {
                            Some(p) if p.bp_position() == c.bp_position() => {}
                            other => fail!("C06/parent/child-parent-mismatch", {"node": node_desc(r, i), "child": node_desc(r, e as usize), "parent_bp": other.map(|p| p.bp_position()), "expected_bp": c.bp_position()}),
                        }
                        kid_cursors.push(ac);
                        kid_idx.push(e);
                        e = sh.next_sib[e as usize];
                        a = ac.next_sibling();
                    }
                    (true, None) => fail!("C06/children/too-few", {"node": node_desc(r, i), "expected_children": nk, "got": kid_cursors.len()}),
                    (false, Some(_)) => fail!("C06/children/too-many", {"node": node_desc(r, i), "expected_children": nk}),
                }
            }
        }
        check_eq!("C06/children/count", nk, c.children().count(), {"node": node_desc(r, i)});
        if nk > 0 || !matches!(m, MNode::Val(J::Arr(_)) | MNode::Val(J::Obj(_))) {
            // (empty containers have no BP children; the fast classifier's doc comment
            // defines "container" through children, so it is only asserted where it is
            // unambiguous)
            check_eq!("C06/is_container", nk > 0, c.is_container(), {"node": node_desc(r, i)});
        }
        {
            // children() yields the same cursors
            let mut it = c.children();
            for (k, kc) in kid_cursors.iter().enumerate() {
                match it.next() {
                    Some(x) if x.bp_position() == kc.bp_position() => {}
                    other => fail!("C06/children/iterator-order", {"node": node_desc(r, i), "k": k, "got_bp": other.map(|x| x.bp_position())}),
                }
            }
        }
        st.evals(2 + nk as u64 * 2);

        match (&v, m) {
            (StandardJson::Array(elems), MNode::Val(J::Arr(a))) => {
                // uncons chain + uncons_cursor chain
                let mut e = *elems;
                let mut ec = *elems;
                for (k, x) in a.iter().enumerate() {
                    let ksp = &r.spans[kid_idx[k] as usize];
                    match e.uncons() {
                        Some((xv, rest)) => {
                            shallow_check(&xv, MNode::Val(x), Some(&text[ksp.start..ksp.end]), "elements-uncons", st)?;
                            e = rest;
                        }
                        None => fail!("C06/elements-uncons/too-few", {"node": node_desc(r, i), "k": k, "len": a.len()}),
                    }
                    match ec.uncons_cursor() {
                        Some((xc, rest)) => {
                            check_eq!("C06/elements-uncons_cursor/bp", kid_cursors[k].bp_position(), xc.bp_position(), {"node": node_desc(r, i), "k": k});
                            ec = rest;
                        }
                        None => fail!("C06/elements-uncons_cursor/too-few", {"node": node_desc(r, i), "k": k, "len": a.len()}),
                    }
                }
                if e.uncons().is_some() || !e.is_empty() {
                    fail!("C06/elements-uncons/too-many", {"node": node_desc(r, i), "len": a.len()});
                }
                if ec.uncons_cursor().is_some() {
                    fail!("C06/elements-uncons_cursor/too-many", {"node": node_desc(r, i), "len": a.len()});
                }
                // Iterator + cursor_iter
                let mut n_it = 0usize;
                for (k, xv) in (*elems).enumerate() {
                    if k >= a.len() {
                        fail!("C06/elements-iter/too-many", {"node": node_desc(r, i), "len": a.len()});
                    }
                    shallow_check(&xv, MNode::Val(&a[k]), None, "elements-iter", st)?;
                    n_it += 1;
                }
                check_eq!("C06/elements-iter/count", a.len(), n_it, {"node": node_desc(r, i)});
                let bps: Vec<usize> = elems.cursor_iter().map(|x| x.bp_position()).collect();
                let exp: Vec<usize> = kid_cursors.iter().map(|x| x.bp_position()).collect();
                check_eq!("C06/elements-cursor_iter/bps", exp, bps, {"node": node_desc(r, i)});
                // get / get_fast
                for k in sample_indices(u, a.len(), 24, 8) {
                    let ksp = &r.spans[kid_idx[k] as usize];
                    let raw = Some(&text[ksp.start..ksp.end]);
                    match elems.get(k) {
                        Some(xv) => shallow_check(&xv, MNode::Val(&a[k]), raw, "elements-get", st)?,
                        None => fail!("C06/elements-get/none", {"node": node_desc(r, i), "k": k, "len": a.len()}),
                    }
                    match elems.get_fast(k) {
                        Some(xv) => shallow_check(&xv, MNode::Val(&a[k]), raw, "elements-get_fast", st)?,
                        None => fail!("C06/elements-get_fast/none", {"node": node_desc(r, i), "k": k, "len": a.len()}),
                    }
                }
                for k in [a.len(), a.len() + 1, a.len() + 64] {
                    if elems.get(k).is_some() {
                        fail!("C06/elements-get/past-end-some", {"node": node_desc(r, i), "k": k, "len": a.len()});
                    }
                    if elems.get_fast(k).is_some() {
                        fail!("C06/elements-get_fast/past-end-some", {"node": node_desc(r, i), "k": k, "len": a.len()});
                    }
                    st.evals(2);
                }
            }
            (StandardJson::Object(fields), MNode::Val(J::Obj(o))) => {
                let mut f = *fields;
                for (k, (key, x)) in o.iter().enumerate() {
                    let kspan = &r.spans[kid_idx[2 * k] as usize];
                    let vspan = &r.spans[kid_idx[2 * k + 1] as usize];
                    match f.uncons() {
                        Some((fld, rest)) => {
                            shallow_check(&fld.key(), MNode::Key(key), Some(&text[kspan.start..kspan.end]), "fields-uncons-key", st)?;
                            shallow_check(&fld.value(), MNode::Val(x), Some(&text[vspan.start..vspan.end]), "fields-uncons-value", st)?;
                            check_eq!("C06/fields-uncons/key_cursor-bp", kid_cursors[2 * k].bp_position(), fld.key_cursor().bp_position(), {"node": node_desc(r, i), "k": k});
                            check_eq!("C06/fields-uncons/value_cursor-bp", kid_cursors[2 * k + 1].bp_position(), fld.value_cursor().bp_position(), {"node": node_desc(r, i), "k": k});
                            f = rest;
                        }
                        None => fail!("C06/fields-uncons/too-few", {"node": node_desc(r, i), "k": k, "len": o.len()}),
                    }
                }
                if f.uncons().is_some() || !f.is_empty() {
                    fail!("C06/fields-uncons/too-many", {"node": node_desc(r, i), "len": o.len()});
                }
                let mut n_it = 0usize;
                for (k, fld) in (*fields).enumerate() {
                    if k >= o.len() {
                        fail!("C06/fields-iter/too-many", {"node": node_desc(r, i), "len": o.len()});
                    }
                    shallow_check(&fld.key(), MNode::Key(&o[k].0), None, "fields-iter-key", st)?;
                    shallow_check(&fld.value(), MNode::Val(&o[k].1), None, "fields-iter-value", st)?;
                    n_it += 1;
                }
                check_eq!("C06/fields-iter/count", o.len(), n_it, {"node": node_desc(r, i)});
                // find / find_cursor: last occurrence
                for k in sample_indices(u, o.len(), 24, 8) {
                    let name = &o[k].0;
                    let last = o.iter().rposition(|(k2, _)| k2 == name).unwrap();
                    let dup = o.iter().filter(|(k2, _)| k2 == name).count() > 1;
                    let tag = if dup { "dup" } else { "uniq" };
                    let vspan = &r.spans[kid_idx[2 * last + 1] as usize];
                    match fields.find(name) {
                        Some(xv) => shallow_check(&xv, MNode::Val(&o[last].1), Some(&text[vspan.start..vspan.end]), &format!("find-{}", tag), st)?,
                        None => fail!(format!("C06/find-{}/none", tag), {"node": node_desc(r, i), "name": name}),
                    }
                    match fields.find_cursor(name) {
                        Some(xc) => {
                            check_eq!(format!("C06/find_cursor-{}/bp", tag), kid_cursors[2 * last + 1].bp_position(), xc.bp_position(), {"node": node_desc(r, i), "name": name, "last_occurrence": last, "this_occurrence": k});
                        }
                        None => fail!(format!("C06/find_cursor-{}/none", tag), {"node": node_desc(r, i), "name": name}),
                    }
                    st.evals(1);
                    if dup {
                        st.class("find-on-duplicated-key");
                    }
                }
                // absent names
                let mut absent = vec![String::from("\u{1}absent\u{10ffff}"), String::new(), String::from("a")];
                if let Some((k0, _)) = o.first() {
                    absent.push(format!("{}x", k0));
                    if !k0.is_empty() {
                        let mut cs: Vec<char> = k0.chars().collect();
                        cs.pop();
                        absent.push(cs.into_iter().collect());
                    }
                }
                for name in absent {
                    if o.iter().any(|(k2, _)| *k2 == name) {
                        continue;
                    }
                    if fields.find(&name).is_some() {
                        fail!("C06/find/absent-some", {"node": node_desc(r, i), "name": name});
                    }
                    if fields.find_cursor(&name).is_some() {
                        fail!("C06/find_cursor/absent-some", {"node": node_desc(r, i), "name": name});
                    }
                    st.evals(2);
                }
            }
            _ => {}
        }
        for (k, kc) in kid_cursors.iter().enumerate().rev() {
            stack.push((*kc, kid_idx[k]));
        }
    }
    check_eq!("C06/walk/visited-all-nodes", r.spans.len(), visited, {"len": text.len()});
    Ok(())
}

// ------------------------------------------------------------------ generation

fn gen_doc(u: &mut Src, deep_list: &[usize], max_nodes: usize) -> Doc {
    let deep = u.ratio(1, 7);
    let o = GenOpts {
        max_depth: if deep { u.range(0, 3) } else { *u.pick(&[1, 2, 3, 4, 6, 8, 12]) },
        max_nodes: if deep {
            u.range(1, 12)
        } else {
            match u.below(5) {
                0 => u.range(1, 8),
                1 => u.range(8, 60),
                _ => u.range(20, max_nodes),
            }
        },
        dup_keys: !u.ratio(1, 4),
        strings: *u.pick(&[StrPalette::Full, StrPalette::Full, StrPalette::Full, StrPalette::Ascii]),
        keys: *u.pick(&[KeyPalette::AsStrings, KeyPalette::AsStrings, KeyPalette::Ident, KeyPalette::Hostile]),
        numbers: *u.pick(&[2, 2, 2, 1]),
        max_str_len: *u.pick(&[4, 24, 24, 80]),
    };
    let mut root = gen_value(u, &o);
    let mut wrapped = 0;
    if deep {
        wrapped = *u.pick(deep_list);
        if u.ratio(1, 3) {
            wrapped = u.range(100, *deep_list.iter().max().unwrap_or(&300));
        }
        root = wrap_deep(u, root, wrapped);
    }
    let mut opts = render_opts(u);
    if deep && wrapped > 300 && opts.ws == Ws::Pretty {
        // (indentation makes a depth-2000 text ~100x longer and every container's
        // text_range is a scan to its own end)
        opts.ws = Ws::Random;
    }
    let r = render(&root, u, opts);
    Doc { root, r, opts, wrapped }
}

pub fn classify(d: &Doc, st: &mut Stats) {
    let depth = d.r.spans.iter().map(|s| s.depth + if s.kind == "array" || s.kind == "object" { 1 } else { 0 }).max().unwrap_or(0);
    let text = &d.r.text;
    let nt = depth >= 2 && d.r.n_escapes >= 1 && d.r.n_ws_gaps >= 1;
    if nt {
        st.nontrivial(hash_bytes(text));
    }
    st.class_if(nt, "nontrivial");
    st.class_if(depth > 128, "depth>128");
    st.class_if(depth > 256, "depth>256");
    st.class_if(depth > 1000, "depth>1000");
    st.class_if(d.root.has_dup_keys(), "duplicate-keys");
    st.class_if(d.r.n_surrogate_pairs > 0, "surrogate-pairs");
    st.class_if(d.r.n_escapes > 0, "escapes");
    st.class_if(text.len() > 64 * 1024, ">64KiB");
    st.class_if(text.len() > 1024 * 1024, ">1MiB");
    st.class_if(!d.root.is_container(), "scalar-root");
    let nodes = model_nodes(&d.root);
    let mut exp = false;
    let mut empty = false;
    let mut bigint = false;
    let mut negzero = false;
    for n in &nodes {
        if let MNode::Val(v) = n {
            match v {
                J::Num(x) => {
                    exp |= x.text.contains('e') || x.text.contains('E');
                    bigint |= x.int.is_none() && !x.text.contains(|c| c == '.' || c == 'e' || c == 'E');
                    negzero |= x.value == 0.0 && x.text.starts_with('-');
                }
                J::Arr(a) => empty |= a.is_empty(),
                J::Obj(o) => empty |= o.is_empty(),
                _ => {}
            }
        }
    }
    st.class_if(exp, "number-with-exponent");
    st.class_if(bigint, "integer-beyond-i64");
    st.class_if(negzero, "negative-zero");
    st.class_if(empty, "empty-container");
    let t = text;
    let lead = t.first().map_or(false, |b| b.is_ascii_whitespace());
    let trail = t.last().map_or(false, |b| b.is_ascii_whitespace());
    st.class_if(lead, "whitespace-before-root");
    st.class_if(trail, "whitespace-after-root");
    // whitespace bytes that occur outside strings
    let mut seen = [false; 4];
    let mut in_str = false;
    let mut k = 0;
    while k < t.len() {
        let b = t[k];
        if in_str {
            if b == b'\\' {
                k += 1;
            } else if b == b'"' {
                in_str = false;
            }
        } else {
            match b {
                b'"' => in_str = true,
                b' ' => seen[0] = true,
                b'\n' => seen[1] = true,
                b'\r' => seen[2] = true,
                b'\t' => seen[3] = true,
                _ => {}
            }
        }
        k += 1;
    }
    for (s, name) in seen.iter().zip(["ws-space", "ws-lf", "ws-cr", "ws-tab"]) {
        st.class_if(*s, name);
    }
    st.class(&format!("ws-{:?}", d.opts.ws));
    st.class(&format!("esc-{:?}", d.opts.esc));
    st.size(text.len());
    let cls = if depth > 128 { "deep" } else if d.root.has_dup_keys() { "dup" } else if d.r.n_surrogate_pairs > 0 { "surrogate" } else { "plain" };
    st.sample(cls, || json!({"text": show_bytes(&text[..text.len().min(300)]), "len": text.len(), "depth": depth, "nodes": nodes.len()}));
}

fn run_case(d: Doc, u: &mut Src, st: &mut Stats) -> Result<(), Fail> {
    classify(&d, st);
    st.describe(|| text_json(&d.r.text));
    // generator self-check against the harness' own parser (two independent harness parts)
    match jsonval::parse_one(&d.r.text) {
        Ok(back) => {
            let same = j_eq(&d.root, &back);
            drop_deep(back);
            if !same {
                fail!("harness/C06/model-vs-jsonval", {"text": show_bytes(&d.r.text)});
            }
        }
        Err(e) => fail!("harness/C06/jsonval-rejects-generated", {"err": format!("{:?}", e)}),
    }
    let res = check_doc(&d, u, st);
    let Doc { root, .. } = d;
    drop_deep(root);
    res
}

fn replay_input(v: &Value) -> Option<Fail> {
    // {"input": {"doc": "<json text>"}}: the text is parsed by O-jsonval and re-rendered
    // compactly (the span table comes from the renderer), then walked.
    let doc = v["input"]["doc"].as_str().unwrap_or("null");
    let root = match jsonval::parse_one(doc.as_bytes()) {
        Ok(j) => j,
        Err(e) => return Some(Fail::new("harness/C06/replay-doc-unparseable", json!({"err": format!("{:?}", e)}))),
    };
    let mut u = Src::new(&[]);
    let opts = RenderOpts { ws: Ws::None, esc: Esc::Minimal, outer_ws: false };
    let r = render(&root, &mut u, opts);
    let d = Doc { root, r, opts, wrapped: 0 };
    let mut st = Stats::default();
    check_doc(&d, &mut u, &mut st).err()
}

pub fn run(cx: &mut Ctx) {
    cx.assume("expected values and spans come from the G-json model and the renderer's span table (harness code); O-jsonval re-parses every generated text as a generator self-check");
    cx.assume("as_f64 is compared bit-for-bit with Rust's correctly rounded parse of the literal, except the sign of zero; as_i64 is asserted only for plain integer literals that fit i64");
    cx.assume("is_container() is not asserted for empty containers (its doc comment defines containers through BP children)");
    for (name, v) in cx.replays.clone() {
        if v["kind"] == "input" {
            let r = replay_input(&v);
            cx.replay_outcome(&name, r);
        }
    }
    let thorough = cx.tier == Tier::Thorough;
    let deep_list: &[usize] = if thorough {
        &[127, 128, 129, 130, 255, 256, 257, 300, 511, 512, 513, 1000, 2000]
    } else {
        &[127, 128, 129, 130, 255, 256, 257, 300]
    };
    let max_nodes = if thorough { 600 } else { 250 };
    cx.check(
        "walk-vs-model",
        RULE,
        Budget { quick: 150_000, thorough: 1_000_000, max_len: if thorough { 40_000 } else { 14_000 } },
        |u, st| {
            let d = gen_doc(u, deep_list, max_nodes);
            run_case(d, u, st)
        },
    );
    for cl in [
        "nontrivial",
        "depth>128",
        "depth>256",
        "duplicate-keys",
        "find-on-duplicated-key",
        "surrogate-pairs",
        "number-with-exponent",
        "integer-beyond-i64",
        "empty-container",
        "scalar-root",
        "whitespace-before-root",
        "ws-lf",
        "ws-cr",
        "ws-tab",
        "ws-space",
    ] {
        cx.require_class("walk-vs-model", cl, 20);
    }
    if thorough {
        cx.require_class("walk-vs-model", "depth>1000", 20);
        // large documents: a generated pool of values tiled into a big root container,
        // rendered from an expanded entropy stream (so gaps/escapes keep varying)
        cx.check(
            "walk-vs-model-large",
            RULE,
            Budget { quick: 0, thorough: 120, max_len: 16_000 },
            |u, st| {
                let o = GenOpts {
                    max_depth: u.range(1, 6),
                    max_nodes: u.range(20, 400),
                    dup_keys: u.bool(),
                    ..GenOpts::default()
                };
                let pool: Vec<J> = (0..u.range(2, 6)).map(|_| gen_value(u, &o)).collect();
                let pool_nodes: usize = pool.iter().map(|p| p.node_count()).sum::<usize>().max(1) / pool.len();
                let target_nodes = *u.pick(&[4_000usize, 10_000, 30_000, 100_000, 250_000]);
                let copies = (target_nodes / pool_nodes.max(1)).clamp(2, 200_000);
                let as_obj = u.bool();
                let root = if as_obj {
                    let dup_every = if u.bool() { u.range(2, 50) } else { usize::MAX };
                    J::Obj((0..copies).map(|i| {
                        let key = if dup_every != usize::MAX && i % dup_every == dup_every - 1 { format!("k{}", i - 1) } else { format!("k{}", i) };
                        (key, pool[i % pool.len()].clone())
                    }).collect())
                } else {
                    J::Arr((0..copies).map(|i| pool[(i * 7 + i / 3) % pool.len()].clone()).collect())
                };
                let opts = render_opts(u);
                let approx = root.node_count() * 40;
                let ent = expand_entropy(u.u64(), approx.min(24 << 20));
                let mut ru = Src::new(&ent);
                let r = render(&root, &mut ru, opts);
                let d = Doc { root, r, opts, wrapped: 0 };
                run_case(d, u, st)
            },
        );
        cx.require_class("walk-vs-model-large", ">64KiB", 20);
        cx.require_class("walk-vs-model-large", ">1MiB", 5);
    }
}
