//! C22 — `@csv` / `@dsv(d)` output reads back through `--input-dsv d` (DESIGN §4 C22).
//! Black-box round trip through two CLI invocations:
//!   succinctly jq -r '@dsv("d")' in.json   >  rows.txt
//!   succinctly jq -c --input-dsv d . rows.txt
//! A batch holds many arrays (one JSON document each) that share one delimiter; on any
//! mismatch the arrays are re-run one by one so the reported case is a single array.
use crate::cli;
use crate::engine::*;
use crate::gen::json::{self as gj, J};
use crate::oracle::jsonval as jv;
use serde_json::{json, Value};

pub const RULE: &str = "arrays of 1..20 strings (empty, the delimiter, quotes incl. leading/trailing/doubled, CR, LF, CRLF, tab, leading/trailing spaces, non-ASCII incl. astral, long fields that straddle 64-byte chunks) x delimiter in printable ASCII minus '\"' (all 94; ',' through @csv or @dsv(\",\")); 1..32 arrays per batch sharing a delimiter, JSON rendered with random escape forms; oracle: rows read back by --input-dsv equal the arrays (strings identical, same count), both exits 0. Non-trivial: some element contains the delimiter, a quote or a line break; distinct by hash(array, delimiter).";

struct Case {
    delim: char,
    /// use `@csv` (only when delim == ',')
    csv: bool,
    /// `--input-dsv=d` instead of `--input-dsv d`
    eq_form: bool,
}

fn program(c: &Case) -> String {
    if c.csv {
        return "@csv".to_string();
    }
    let lit = match c.delim {
        '\\' => "\\\\".to_string(),
        d => d.to_string(),
    };
    format!("@dsv(\"{}\")", lit)
}

fn read_args(c: &Case) -> Vec<String> {
    let mut a = vec!["jq".to_string(), "-c".to_string()];
    if c.eq_form {
        a.push(format!("--input-dsv={}", c.delim));
    } else {
        a.push("--input-dsv".into());
        a.push(c.delim.to_string());
    }
    a.push(".".into());
    a
}

fn gen_field(u: &mut Src, d: char) -> String {
    let atom = |u: &mut Src| -> String {
        match u.below(16) {
            0 => d.to_string(),
            1 => "\"".to_string(),
            2 => "\n".to_string(),
            3 => "\r".to_string(),
            4 => "\r\n".to_string(),
            5 => " ".to_string(),
            6 => u.pick(&["é", "ß", "あ", "😀", "\u{a0}", "\u{2028}", "\u{feff}", "\u{10ffff}", "ñ"]).to_string(),
            7 => "\t".to_string(),
            8 => u.pick(&[",", ";", "|", "\t", ":", "'", "\\", "#"]).to_string(),
            9 => "\"\"".to_string(),
            _ => ((b'a' + u.below(26) as u8) as char).to_string(),
        }
    };
    match u.below(12) {
        0 => String::new(),
        1 => d.to_string(),
        2 => "\"".to_string(),
        3 => {
            // long field built by repetition (crosses chunk boundaries of the DSV indexer)
            let piece: String = (0..u.range(1, 6)).map(|_| atom(u)).collect();
            let n = u.range(8, 70);
            piece.repeat(n)
        }
        4 => format!("{}{}", atom(u), d),
        5 => format!("\"{}\"", (0..u.range(0, 4)).map(|_| atom(u)).collect::<String>()),
        _ => (0..u.range(1, 8)).map(|_| atom(u)).collect(),
    }
}

fn gen_array(u: &mut Src, d: char) -> Vec<String> {
    let n = match u.below(6) {
        0 => 1,
        1 => u.range(1, 3),
        2 => 20,
        _ => u.range(1, 20),
    };
    (0..n).map(|_| gen_field(u, d)).collect()
}

fn nontrivial(a: &[String], d: char) -> bool {
    a.iter().any(|s| s.contains(d) || s.contains('"') || s.contains('\n') || s.contains('\r'))
}

fn lossy(b: &[u8]) -> String {
    let s = String::from_utf8_lossy(b);
    if s.len() > 4000 {
        let mut cut = 4000;
        while !s.is_char_boundary(cut) {
            cut -= 1;
        }
        format!("{}…(+{} bytes)", &s[..cut], s.len() - cut)
    } else {
        s.to_string()
    }
}

enum Outcome {
    Pass,
    Inconclusive,
}

/// One round trip over `arrays` (each rendered JSON text is one input document).
fn round_trip(c: &Case, arrays: &[&Vec<String>], texts: &[&Vec<u8>]) -> Result<Outcome, Fail> {
    let single = arrays.len() == 1;
    let mut input = vec![];
    for t in texts {
        input.extend_from_slice(t);
        input.push(b'\n');
    }
    let prog = program(c);
    let path = cli::write_tmp("c22-in", &input);
    let p = path.to_string_lossy().to_string();
    let fmt_args = ["jq", "-r", prog.as_str(), p.as_str()];
    let f = cli::run(&fmt_args, None);
    let _ = std::fs::remove_file(&path);
    if f.timed_out {
        return Ok(Outcome::Inconclusive);
    }
    let dname = format!("{:?}", c.delim);
    let base = |what: &str, extra: Value| -> Value {
        let mut v = json!({
            "what": what,
            "delimiter": c.delim.to_string(),
            "format_command": ["succinctly", "jq", "-r", prog, "<in.json>"],
            "read_command": read_args(c),
            "arrays": arrays.len(),
            "extra": extra,
        });
        if single {
            v["array"] = json!(arrays[0]);
            v["input_json"] = json!(lossy(texts[0]));
        }
        v
    };
    if f.crashed() {
        return Err(Fail::new("C22/format/crash", base("formatter crashed", json!({"exit": f.code, "signal": f.signal, "stderr": lossy(&f.stderr)}))));
    }
    if f.code != Some(0) {
        return Err(Fail::new("C22/format/exit-status", base("formatter failed on an array of strings", json!({"exit": f.code, "stderr": lossy(&f.stderr)}))));
    }
    let rpath = cli::write_tmp("c22-rows", &f.stdout);
    let mut ra = read_args(c);
    ra.push(rpath.to_string_lossy().to_string());
    let ra_ref: Vec<&str> = ra.iter().map(|s| s.as_str()).collect();
    let r = cli::run(&ra_ref, None);
    let _ = std::fs::remove_file(&rpath);
    if r.timed_out {
        return Ok(Outcome::Inconclusive);
    }
    let with_text = |mut v: Value| -> Value {
        v["dsv_text"] = json!(lossy(&f.stdout));
        v
    };
    if r.crashed() {
        return Err(Fail::new("C22/read/crash", with_text(base("reader crashed", json!({"exit": r.code, "signal": r.signal, "stderr": lossy(&r.stderr)})))));
    }
    if r.code != Some(0) {
        return Err(Fail::new("C22/read/exit-status", with_text(base("reader failed", json!({"exit": r.code, "stderr": lossy(&r.stderr)})))));
    }
    let rows = match jv::parse_stream(&r.stdout) {
        Ok(v) => v,
        Err(e) => return Err(Fail::new("C22/read/output-not-json", with_text(base(&e.msg, json!({"stdout": lossy(&r.stdout)}))))),
    };
    if rows.len() != arrays.len() {
        let shape = if rows.len() > arrays.len() { "more-rows" } else { "fewer-rows" };
        return Err(Fail::new(
            format!("C22/round-trip/{}", shape),
            with_text(base("number of rows read differs from the number of arrays written", json!({"rows_read": rows.len(), "delim": dname, "stdout": lossy(&r.stdout)}))),
        ));
    }
    for (i, (a, row)) in arrays.iter().zip(rows.iter()).enumerate() {
        let exp = J::Arr(a.iter().map(|s| J::Str(s.clone())).collect());
        if !gj::j_eq(&exp, row) {
            let shape = match row {
                J::Arr(x) if x.len() != a.len() => {
                    if x.len() > a.len() {
                        "more-fields"
                    } else {
                        "fewer-fields"
                    }
                }
                J::Arr(_) => "field-text",
                _ => "not-an-array",
            };
            let mut v = with_text(base("row read back differs from the array written", json!({"index": i, "read_back": gj::to_compact(row)})));
            v["array"] = json!(a);
            return Err(Fail::new(format!("C22/round-trip/{}", shape), v));
        }
    }
    Ok(Outcome::Pass)
}

fn run_batch(c: &Case, arrays: &[Vec<String>], texts: &[Vec<u8>], st: &mut Stats) -> Result<(), Fail> {
    let ar: Vec<&Vec<String>> = arrays.iter().collect();
    let tr: Vec<&Vec<u8>> = texts.iter().collect();
    match round_trip(c, &ar, &tr) {
        Ok(Outcome::Pass) => Ok(()),
        Ok(Outcome::Inconclusive) => {
            st.discard();
            Ok(())
        }
        Err(bf) => {
            if arrays.len() == 1 {
                return Err(bf);
            }
            for i in 0..arrays.len() {
                match round_trip(c, &[&arrays[i]], &[&texts[i]]) {
                    Err(f) => return Err(f),
                    Ok(Outcome::Inconclusive) => {
                        st.discard();
                        return Ok(());
                    }
                    Ok(Outcome::Pass) => {}
                }
            }
            // pairs: a row may only fail next to its neighbour
            for i in 0..arrays.len() - 1 {
                if let Err(mut f) = round_trip(c, &[&arrays[i], &arrays[i + 1]], &[&texts[i], &texts[i + 1]]) {
                    f.sig = f.sig.replacen("C22/", "C22/two-rows/", 1);
                    if let Some(m) = f.detail.as_object_mut() {
                        m.insert("two_arrays".into(), json!([arrays[i], arrays[i + 1]]));
                    }
                    return Err(f);
                }
            }
            let mut f = bf;
            f.sig = f.sig.replacen("C22/", "C22/stream-only/", 1);
            if let Some(m) = f.detail.as_object_mut() {
                m.insert("all_arrays".into(), json!(arrays));
            }
            Err(f)
        }
    }
}

fn replay_input(v: &Value) -> Option<Fail> {
    let inp = &v["input"];
    let d = inp["delimiter"].as_str().and_then(|s| s.chars().next()).unwrap_or(',');
    let c = Case { delim: d, csv: inp["csv"] == true, eq_form: true };
    let arr: Vec<String> = inp["array"].as_array().map(|a| a.iter().filter_map(|x| x.as_str().map(|s| s.to_string())).collect()).unwrap_or_default();
    let text = gj::to_compact(&J::Arr(arr.iter().map(|s| J::Str(s.clone())).collect())).into_bytes();
    match round_trip(&c, &[&arr], &[&text]) {
        Ok(_) => None,
        Err(f) => Some(f),
    }
}

pub fn run(cx: &mut Ctx) {
    if !cli::cli_available() {
        cx.infra(format!("CLI binary not found at {}", cli::cli_path()));
        return;
    }
    cx.assume("admissible delimiter = what validate_dsv_delimiter accepts among printable ASCII: everything except '\"' (CR/LF/non-ASCII are rejected by the CLI and not printable ASCII)");
    cx.assume("the -r output of one array is one record ending in LF, so rows whose last field is empty are inside the statement");
    for (name, v) in cx.replays.clone() {
        if v["kind"] == "input" {
            let r = replay_input(&v);
            cx.replay_outcome(&name, r);
        }
    }
    cx.check(
        "dsv-round-trip",
        RULE,
        Budget { quick: 2_500, thorough: 60_000, max_len: 6_000 },
        |u, st| {
            let delim = match u.below(4) {
                0 => ',',
                1 => *u.pick(&[';', '|', ' ', ' ', ':', '\\', '\\', '\'', '-', '=', '#', 'a', '0', '~', '!']),
                _ => {
                    let c = u.range(0x20, 0x7e) as u8 as char;
                    if c == '"' {
                        ','
                    } else {
                        c
                    }
                }
            };
            let c = Case { delim, csv: delim == ',' && u.bool(), eq_form: u.bool() };
            let k = match u.below(5) {
                0 => 1,
                1 => u.range(2, 6),
                _ => u.range(6, 32),
            };
            let arrays: Vec<Vec<String>> = (0..k).map(|_| gen_array(u, delim)).collect();
            let texts: Vec<Vec<u8>> = arrays
                .iter()
                .map(|a| {
                    let j = J::Arr(a.iter().map(|s| J::Str(s.clone())).collect());
                    let ro = gj::RenderOpts { ws: *u.pick(&[gj::Ws::None, gj::Ws::Spaced, gj::Ws::Random]), esc: *u.pick(&[gj::Esc::Minimal, gj::Esc::Random, gj::Esc::AsciiOnly]), outer_ws: false };
                    gj::render(&j, u, ro).text
                })
                .collect();
            st.class(if c.csv { "@csv" } else { "@dsv" });
            st.class(match delim {
                ',' => "delim-comma",
                ' ' => "delim-space",
                '\\' => "delim-backslash",
                c if c.is_ascii_alphanumeric() => "delim-alphanumeric",
                _ => "delim-other-punct",
            });
            for a in &arrays {
                st.evals(1);
                let nt = nontrivial(a, delim);
                if nt {
                    st.class("nontrivial");
                    let mut h = hash_str(&a.join("\u{1}"));
                    h = mix64(h ^ (delim as u64) << 32 ^ a.len() as u64);
                    st.nontrivial(h);
                }
                st.class_if(a.last().map_or(false, |s| s.is_empty()), "last-field-empty");
                st.class_if(a.len() == 1 && a[0].is_empty(), "single-empty-string");
                st.class_if(a.iter().any(|s| s.contains('\n') || s.contains('\r')), "line-break-in-field");
                st.class_if(a.iter().any(|s| s.contains("\r\n")), "crlf-in-field");
                st.class_if(a.iter().any(|s| s.contains(delim)), "delimiter-in-field");
                st.class_if(a.iter().any(|s| s.contains('"')), "quote-in-field");
                st.class_if(a.iter().any(|s| !s.is_ascii()), "non-ascii");
                st.class_if(a.iter().any(|s| s.len() > 64), "field>64-bytes");
                st.class_if(a.len() == 20, "20-fields");
                st.size(a.iter().map(|s| s.len()).sum());
            }
            st.sample(if c.csv { "@csv" } else { "@dsv" }, || json!({"delimiter": delim.to_string(), "arrays": k, "first": arrays[0]}));
            st.describe(|| json!({"delimiter": delim.to_string(), "csv": c.csv, "program": program(&c), "read_args": read_args(&c), "arrays": arrays}));
            run_batch(&c, &arrays, &texts, st)
        },
    );
    for c in ["@csv", "@dsv", "last-field-empty", "single-empty-string", "crlf-in-field", "delimiter-in-field", "quote-in-field", "non-ascii", "field>64-bytes", "delim-space", "delim-backslash", "delim-alphanumeric", "nontrivial"] {
        cx.require_class("dsv-round-trip", c, 10);
    }
    cli::cleanup();
}
