//! C13 — UTF-8 validation = Unicode definition on every engine (DESIGN §4 C13).
use crate::engine::*;
use crate::gen::text::{self, Defect, Profile};
use serde_json::json;
use succinctly::text::utf8::{
    decode_code_point, encode_code_point, sequence_length, validate_utf8, validate_utf8_broadword, validate_utf8_scalar,
    validate_utf8_simd, Utf8Error, Utf8ErrorKind,
};

pub const RULE: &str = "byte strings = valid mixed-width UTF-8 prefix whose length is steered to B+d (B in {8,16,24,32,64,96,128,160}, d in -5..=4) + one planted defect (overlong C0/C1, E0 80-9F, F0 80-8F; surrogate ED A0-BF; F4 90+; F5-F7; F8-FF; lone continuation; bad continuation at byte 1/2/3; truncation at end / mid) or a boundary-straddling valid character + 0..70 bytes of suffix, optional second defect, LF/CRLF/CR sprinkled into the prefix; plus raw bytes. Oracle: core::str::from_utf8 (valid_up_to) for accept/reject; the four engines (validate_utf8, _simd, _scalar, _broadword) return identical results; the error is in the admissible set for (lead byte, available tail) and line/column = LF count rule when the prefix has no lone CR. Exhaustive: all 1-, 2-, 3-byte inputs (plain and straddling a 32-byte boundary), a 4-byte lead family, every code point 0..=0x110400 for encode/decode. Non-trivial: len>=33 and a multi-byte char or defect within 4 bytes of a 32-byte boundary; distinct by hash(bytes).";

type Engine = (&'static str, fn(&[u8]) -> Result<(), Utf8Error>);
const ENGINES: [Engine; 4] = [
    ("validate_utf8", validate_utf8),
    ("validate_utf8_simd", validate_utf8_simd),
    ("validate_utf8_scalar", validate_utf8_scalar),
    ("validate_utf8_broadword", validate_utf8_broadword),
];

fn seq_len(lead: u8) -> usize {
    match lead {
        0x00..=0x7f => 1,
        0xc0..=0xdf => 2,
        0xe0..=0xef => 3,
        0xf0..=0xf7 => 4,
        _ => 0,
    }
}

fn is_cont(b: u8) -> bool {
    b & 0xc0 == 0x80
}

fn kind_name(k: Utf8ErrorKind) -> &'static str {
    match k {
        Utf8ErrorKind::InvalidLeadByte => "InvalidLeadByte",
        Utf8ErrorKind::InvalidContinuationByte => "InvalidContinuationByte",
        Utf8ErrorKind::OverlongEncoding => "OverlongEncoding",
        Utf8ErrorKind::SurrogateCodepoint => "SurrogateCodepoint",
        Utf8ErrorKind::OutOfRangeCodepoint => "OutOfRangeCodepoint",
        Utf8ErrorKind::TruncatedSequence => "TruncatedSequence",
    }
}

/// The admissible (kind, offset) pairs for an input whose longest valid prefix is `v`.
fn admissible(x: &[u8], v: usize) -> Vec<(Utf8ErrorKind, usize)> {
    let lead = x[v];
    let n = seq_len(lead);
    if n == 0 {
        return vec![(Utf8ErrorKind::InvalidLeadByte, v)];
    }
    let avail = n.min(x.len() - v);
    let bad = (1..avail).find(|&j| !is_cont(x[v + j]));
    if v + n > x.len() {
        let mut a = vec![(Utf8ErrorKind::TruncatedSequence, v)];
        if let Some(j) = bad {
            a.push((Utf8ErrorKind::InvalidContinuationByte, v + j));
        }
        return a;
    }
    if let Some(j) = bad {
        return vec![(Utf8ErrorKind::InvalidContinuationByte, v + j)];
    }
    // all n bytes present and continuations: the decoded value breaks exactly one rule
    let cp = match n {
        2 => ((lead as u32 & 0x1f) << 6) | (x[v + 1] as u32 & 0x3f),
        3 => ((lead as u32 & 0x0f) << 12) | ((x[v + 1] as u32 & 0x3f) << 6) | (x[v + 2] as u32 & 0x3f),
        _ => ((lead as u32 & 0x07) << 18) | ((x[v + 1] as u32 & 0x3f) << 12) | ((x[v + 2] as u32 & 0x3f) << 6) | (x[v + 3] as u32 & 0x3f),
    };
    let min = [0, 0, 0x80, 0x800, 0x10000][n];
    if cp < min {
        vec![(Utf8ErrorKind::OverlongEncoding, v)]
    } else if (0xD800..=0xDFFF).contains(&cp) {
        vec![(Utf8ErrorKind::SurrogateCodepoint, v)]
    } else if cp > 0x10FFFF {
        vec![(Utf8ErrorKind::OutOfRangeCodepoint, v)]
    } else {
        vec![] // std rejected a sequence this model thinks is fine: reported as a harness/model disagreement
    }
}

fn has_lone_cr(x: &[u8], upto: usize) -> bool {
    (0..upto).any(|i| x[i] == b'\r' && x.get(i + 1) != Some(&b'\n'))
}

pub fn check_bytes(x: &[u8], st: &mut Stats) -> Result<(), Fail> {
    let info = || json!({"bytes_hex": hex(&x[..x.len().min(2000)]), "len": x.len(), "bytes": show_bytes(x)});
    let std_r = core::str::from_utf8(x);
    let results: Vec<Result<(), Utf8Error>> = ENGINES.iter().map(|(_, f)| f(x)).collect();
    st.evals(4);
    for (i, (name, _)) in ENGINES.iter().enumerate() {
        match (&std_r, &results[i]) {
            (Ok(_), Err(e)) => {
                fail!(format!("C13/{}/false-reject", name), {"case": info(), "error": format!("{:?}", e)})
            }
            (Err(se), Ok(())) => {
                fail!(format!("C13/{}/false-accept", name), {"case": info(), "std_valid_up_to": se.valid_up_to()})
            }
            _ => {}
        }
    }
    let Err(se) = std_r else { return Ok(()) };
    let v = se.valid_up_to();
    let e0 = results[2].as_ref().err().cloned().expect("scalar error");
    for (i, (name, _)) in ENGINES.iter().enumerate() {
        let e = results[i].as_ref().err().expect("error");
        if *e != e0 {
            fail!(format!("C13/{}/error-differs-from-scalar", name), {"case": info(), "scalar": format!("{:?}", e0), "this": format!("{:?}", e)});
        }
    }
    let adm = admissible(x, v);
    if !adm.iter().any(|&(k, o)| k == e0.kind && o == e0.offset) {
        let shape = if e0.offset < v {
            "offset-before-valid-prefix-end"
        } else if e0.offset > v && e0.kind != Utf8ErrorKind::InvalidContinuationByte {
            "offset-past-valid-prefix"
        } else {
            "wrong-kind-or-offset"
        };
        fail!(format!("C13/error-not-admissible/{}/{}", kind_name(e0.kind), shape), {"case": info(), "std_valid_up_to": v, "error": format!("{:?}", e0), "admissible": format!("{:?}", adm)});
    }
    if !has_lone_cr(x, e0.offset) {
        let pre = &x[..e0.offset];
        let line = 1 + pre.iter().filter(|&&b| b == b'\n').count();
        let col = match pre.iter().rposition(|&b| b == b'\n') {
            Some(p) => e0.offset - (p + 1) + 1,
            None => e0.offset + 1,
        };
        if (line, col) != (e0.line, e0.column) {
            fail!("C13/line-column-wrong", {"case": info(), "error": format!("{:?}", e0), "expected_line": line, "expected_column": col});
        }
        st.evals(1);
    }
    Ok(())
}

/// decode_code_point on an arbitrary slice: first sequence only.
fn check_decode(x: &[u8], st: &mut Stats) -> Result<(), Fail> {
    let exp: Option<(u32, usize)> = if x.is_empty() {
        None
    } else {
        let n = seq_len(x[0]);
        if n == 0 || x.len() < n {
            None
        } else {
            match core::str::from_utf8(&x[..n]) {
                Ok(s) => s.chars().next().map(|c| (c as u32, n)),
                Err(_) => None,
            }
        }
    };
    let act = decode_code_point(x);
    st.evals(1);
    if exp != act {
        let shape = match (exp, act) {
            (None, Some(_)) => "accepts-malformed",
            (Some(_), None) => "rejects-wellformed",
            _ => "wrong-value",
        };
        fail!(format!("C13/decode_code_point/{}", shape), {"bytes_hex": hex(x), "expected": format!("{:?}", exp), "actual": format!("{:?}", act)});
    }
    Ok(())
}

// ------------------------------------------------------------------ generator

pub struct Case {
    pub bytes: Vec<u8>,
    pub kind: String,
    /// byte offsets where a defect / straddling char was placed
    pub sites: Vec<usize>,
}

const BLOCKS: &[usize] = &[8, 16, 24, 32, 64, 96, 128, 160];

fn sprinkle_breaks(u: &mut Src, v: &mut Vec<u8>) {
    // overwrite ASCII positions only, so validity is untouched
    let n = u.below(4);
    for _ in 0..n {
        if v.is_empty() {
            return;
        }
        let i = u.below(v.len());
        if v[i] < 0x80 {
            match u.below(4) {
                0 | 1 => v[i] = b'\n',
                2 => {
                    v[i] = b'\r';
                    if i + 1 < v.len() && v[i + 1] < 0x80 {
                        v[i + 1] = b'\n';
                    }
                }
                _ => v[i] = b'\r',
            }
        }
    }
}

pub fn gen_case(u: &mut Src, max_suffix: usize) -> Case {
    let family = u.weighted(&[10, 3, 2, 2]);
    if family == 2 {
        // raw bytes, biased to UTF-8-relevant values
        let n = u.len_biased(200, &[31, 32, 33, 63, 64, 65]);
        let mut v = Vec::with_capacity(n);
        for _ in 0..n {
            v.push(match u.below(6) {
                0 => u.byte(),
                1 => 0x80 + u.below(0x40) as u8,
                2 => *u.pick(&[0xC0, 0xC1, 0xC2, 0xDF, 0xE0, 0xE1, 0xEC, 0xED, 0xEE, 0xEF, 0xF0, 0xF1, 0xF3, 0xF4, 0xF5, 0xF7, 0xF8, 0xFF]),
                3 => *u.pick(&[0x7f, 0x80, 0x8f, 0x90, 0x9f, 0xA0, 0xBF, 0x0a, 0x0d]),
                _ => 0x20 + u.below(0x5f) as u8,
            });
        }
        return Case { bytes: v, kind: "raw".into(), sites: vec![] };
    }
    let p = *u.pick(&[Profile::AsciiOnly, Profile::AsciiOnly, Profile::Mixed, Profile::MultiByteHeavy, Profile::AnyScalar]);
    let b = *u.pick(BLOCKS);
    let d = u.below(10) as isize - 5;
    let pre_len = if u.ratio(3, 5) { (b as isize + d).max(0) as usize } else { u.range(0, 200) };
    let mut v = text::valid_filler(u, pre_len, p);
    sprinkle_breaks(u, &mut v);
    let mut sites = vec![v.len()];
    let mut kind;
    if family == 1 {
        // valid: a multi-byte character straddling (or next to) the boundary
        let cl = *u.pick(&[text::CharClass::Latin1, text::CharClass::Bmp3, text::CharClass::Astral, text::CharClass::Special]);
        let c = text::char_of(u, cl);
        let mut buf = [0u8; 4];
        v.extend_from_slice(c.encode_utf8(&mut buf).as_bytes());
        kind = "valid-straddle".to_string();
    } else if family == 3 {
        kind = "valid-plain".to_string();
    } else {
        let df = *u.pick(text::DEFECTS);
        v.extend_from_slice(&text::defect_bytes(u, df));
        kind = format!("{:?}", df);
        if df == Defect::TruncatedAtEnd {
            return Case { bytes: v, kind, sites };
        }
    }
    let sfx = u.len_biased(max_suffix, &[0, 1, 2, 3, 28, 29, 30, 31, 32, 33]);
    let sp = if u.bool() { p } else { Profile::AsciiOnly };
    let s = text::valid_filler(u, sfx, sp);
    v.extend_from_slice(&s);
    if family == 0 && u.ratio(1, 4) {
        // a second defect, again steered to a block boundary when possible
        let target = (v.len() / 32 + 1) * 32;
        let d2 = u.below(8) as isize - 4;
        let want = (target as isize + d2).max(v.len() as isize) as usize;
        let pad = text::valid_filler(u, want - v.len(), Profile::AsciiOnly);
        v.extend_from_slice(&pad);
        sites.push(v.len());
        let df = *u.pick(text::DEFECTS);
        v.extend_from_slice(&text::defect_bytes(u, df));
        kind = format!("{}+{:?}", kind, df);
        if df != Defect::TruncatedAtEnd {
            let t = u.below(40);
            let s = text::valid_filler(u, t, Profile::AsciiOnly);
            v.extend_from_slice(&s);
        }
    }
    Case { bytes: v, kind, sites }
}

fn near_block_boundary(off: usize) -> bool {
    let r = off % 32;
    r <= 4 || r >= 28
}

fn classify(c: &Case, st: &mut Stats) {
    let x = &c.bytes;
    let valid = core::str::from_utf8(x);
    // non-trivial: len >= 33 and a multi-byte char or a defect within 4 bytes of a 32-byte boundary
    let mut nt = false;
    if x.len() >= 33 {
        nt = x.iter().enumerate().any(|(i, &b)| b >= 0x80 && i >= 27 && near_block_boundary(i));
    }
    if nt {
        st.nontrivial(hash_bytes(x));
    }
    st.class_if(nt, "nontrivial");
    st.class(&format!("kind-{}", c.kind.split('+').next().unwrap_or("")));
    st.class_if(c.kind.contains('+'), "two-defects");
    match &valid {
        Ok(_) => st.class("std-valid"),
        Err(e) => {
            st.class("std-invalid");
            let v = e.valid_up_to();
            st.class_if(v >= 32, "invalid-after>=32-valid-bytes");
            st.class_if(v > 0 && x[..v].is_ascii() && v >= 32, "invalid-after>=32-ascii-bytes");
            st.class_if(x[..v].contains(&b'\n'), "invalid-with-LF-in-prefix");
            st.class_if(has_lone_cr(x, v), "invalid-with-lone-CR-in-prefix(line/col not asserted)");
            if x.len() >= 33 && v >= 27 {
                st.class(&format!("first-defect-at-offset-mod32={:02}", v % 32));
            }
            st.class_if(x.len() - v < 4 && seq_len(x[v]) > x.len() - v, "truncated-at-end-of-input");
        }
    }
    st.class_if(x.len() % 32 == 0 && !x.is_empty(), "len-multiple-of-32");
    st.size(x.len());
    st.sample(&c.kind, || json!({"kind": c.kind, "len": x.len(), "sites": c.sites, "tail": show_bytes(&x[x.len().saturating_sub(48)..])}));
}

pub fn run(cx: &mut Ctx) {
    cx.assume("trusted base: core::str::from_utf8 (accept/reject and valid_up_to) and char::encode_utf8 of the Rust standard library");
    cx.assume("'offset = longest valid prefix' is read as DESIGN §4 C13: InvalidContinuationByte may point at the offending byte (documented + unit-tested behaviour of the scalar validator); every other kind must point at valid_up_to");
    cx.assume("on this host validate_utf8 == validate_utf8_simd (AVX2 detected); the non-AVX2 arm of the dispatcher is the scalar validator, which is checked directly");

    for (name, v) in cx.replays.clone() {
        if v["kind"] == "input" {
            let b = unhex(v["input"]["bytes_hex"].as_str().unwrap_or(""));
            let mut st = Stats::default();
            let r = check_bytes(&b, &mut st).err().or_else(|| check_decode(&b, &mut st).err());
            cx.replay_outcome(&name, r);
        }
    }

    let max_suffix = if cx.tier == Tier::Quick { 70 } else { 400 };
    cx.check(
        "validators-vs-std",
        RULE,
        Budget { quick: 3_000_000, thorough: 150_000_000, max_len: 1200 },
        |u, st| {
            let c = gen_case(u, max_suffix);
            classify(&c, st);
            st.describe(|| json!({"bytes_hex": hex(&c.bytes), "kind": c.kind, "sites": c.sites}));
            check_bytes(&c.bytes, st)?;
            // decode_code_point at the planted sites (first sequence only)
            for &s in &c.sites {
                if s < c.bytes.len() {
                    check_decode(&c.bytes[s..], st)?;
                }
            }
            Ok(())
        },
    );
    for r in 0..32 {
        cx.require_class("validators-vs-std", &format!("first-defect-at-offset-mod32={:02}", r), 30);
    }
    for cl in [
        "std-valid",
        "std-invalid",
        "kind-valid-straddle",
        "kind-raw",
        "two-defects",
        "invalid-after>=32-ascii-bytes",
        "invalid-with-LF-in-prefix",
        "truncated-at-end-of-input",
        "len-multiple-of-32",
        "kind-Overlong2",
        "kind-Overlong3",
        "kind-Overlong4",
        "kind-Surrogate",
        "kind-TooLargeF4",
        "kind-TooLargeF5",
        "kind-InvalidLeadF8",
        "kind-LoneCont",
        "kind-BadCont",
        "kind-TruncatedAtEnd",
        "kind-TruncatedMid",
    ] {
        cx.require_class("validators-vs-std", cl, 50);
    }

    // ---- large inputs: engines that window or chunk the input (64 KiB broadword windows,
    // 32-byte SIMD blocks over long runs) must still report the same offset/kind/line/column.
    // A short generated case is embedded after a long valid prefix built by tiling a small
    // valid mixed-width piece (with line breaks), so the first defect lies 0..400 KiB in.
    cx.check(
        "validators-vs-std-large",
        "a generated defect case (as in validators-vs-std) placed after a 0..400 KiB valid prefix tiled from a small mixed-width piece with LF line breaks; same oracle",
        Budget { quick: 6_000, thorough: 400_000, max_len: 1400 },
        |u, st| {
            let c = gen_case(u, 70);
            // the tile: valid UTF-8 of mixed widths, optionally with LF
            let mut tile: Vec<u8> = Vec::new();
            for _ in 0..u.range(1, 40) {
                match u.below(6) {
                    0 => tile.extend_from_slice("é".as_bytes()),
                    1 => tile.extend_from_slice("あ".as_bytes()),
                    2 => tile.extend_from_slice("😀".as_bytes()),
                    3 => tile.push(b'\n'),
                    _ => tile.push(b'a' + u.below(26) as u8),
                }
            }
            let target = match u.below(6) {
                0 => u.range(0, 4096),
                1 => u.range(65_536 - 64, 65_536 + 64),
                2 => u.range(131_072 - 64, 131_072 + 64),
                3 => u.range(60_000, 70_000),
                _ => u.range(0, 400_000),
            };
            let mut x: Vec<u8> = Vec::with_capacity(target + tile.len() + c.bytes.len());
            while x.len() < target {
                x.extend_from_slice(&tile);
            }
            let prefix_len = x.len();
            x.extend_from_slice(&c.bytes);
            st.class_if(prefix_len > 65_536, "defect-beyond-64KiB");
            st.class_if(prefix_len > 131_072, "defect-beyond-128KiB");
            st.class_if(prefix_len > 65_536 && tile.contains(&b'\n'), "defect-beyond-64KiB-with-LF-before");
            st.class_if(core::str::from_utf8(&x).is_err(), "std-invalid");
            if prefix_len > 65_536 {
                st.nontrivial(hash_bytes(&c.bytes) ^ mix64(prefix_len as u64) ^ hash_bytes(&tile));
            }
            st.size(x.len());
            st.describe(|| json!({"tile_hex": hex(&tile), "prefix_len": prefix_len, "tail_hex": hex(&c.bytes), "note": "input = tile repeated up to prefix_len bytes, then tail"}));
            st.sample("large", || json!({"prefix_len": prefix_len, "tile": show_bytes(&tile), "tail": show_bytes(&c.bytes)}));
            check_bytes(&x, st)
        },
    );
    cx.require_class("validators-vs-std-large", "defect-beyond-64KiB-with-LF-before", 200);
    cx.require_class("validators-vs-std-large", "std-invalid", 500);

    // ---- exhaustive short inputs, plain and straddling a 32-byte boundary
    cx.exhaustive(
        "every-1-2-3-byte-input",
        "every 1-byte, 2-byte and 3-byte input: plain, and (for inputs with a byte >= 0x80) inside an ASCII frame so that the sequence starts at offset 29, 30, 31 or 32 of a 72-byte buffer, and at the very end of a 32/64-byte buffer; validators vs std + decode_code_point + sequence_length",
        true,
        |shard, nshards, st| {
            let mut frame = vec![b'a'; 72];
            let total: u32 = 256 + 65536 + (1 << 24);
            let mut i = shard as u32;
            while i < total {
                let (buf, n): ([u8; 3], usize) = if i < 256 {
                    ([i as u8, 0, 0], 1)
                } else if i < 256 + 65536 {
                    let k = i - 256;
                    ([(k >> 8) as u8, k as u8, 0], 2)
                } else {
                    let k = i - 256 - 65536;
                    ([(k >> 16) as u8, (k >> 8) as u8, k as u8], 3)
                };
                let x = &buf[..n];
                check_bytes(x, st)?;
                check_decode(x, st)?;
                st.cases += 1;
                if n == 1 {
                    let e = seq_len(x[0]);
                    check_eq!("C13/sequence_length", e, sequence_length(x[0]), {"byte": x[0]});
                }
                // framed variants only where something non-ASCII is involved; 3-byte inputs: those with a non-ASCII first byte
                if x[0] >= 0x80 || (n < 3 && x.iter().any(|&b| b >= 0x80)) {
                    for at in [29usize, 30, 31, 32] {
                        frame[at..at + n].copy_from_slice(x);
                        let r = check_bytes(&frame, st);
                        for b in &mut frame[at..at + n] {
                            *b = b'a';
                        }
                        r?;
                    }
                    // sequence at the very end of a 32- and a 64-byte buffer (tail handling)
                    for total_len in [32usize, 64] {
                        let at = total_len - n;
                        frame[at..at + n].copy_from_slice(x);
                        let r = check_bytes(&frame[..total_len], st);
                        for b in &mut frame[at..at + n] {
                            *b = b'a';
                        }
                        r?;
                    }
                    if i % 1021 == 0 {
                        st.nontrivial(i as u64);
                    }
                }
                i += nshards as u32;
            }
            Ok(())
        },
    );

    cx.exhaustive(
        "4-byte-lead-family",
        "lead F0..=F7 x second byte 0..=255 x third/fourth in {00,7f,80,8f,90,a5,bf,c0,ff}: plain and ending at / straddling offset 32 of an ASCII frame",
        true,
        |shard, nshards, st| {
            let tails = [0x00u8, 0x7f, 0x80, 0x8f, 0x90, 0xa5, 0xbf, 0xc0, 0xff];
            let mut frame = vec![b'a'; 72];
            let mut idx = 0usize;
            for lead in 0xF0u8..=0xF7 {
                for b1 in 0..=255u8 {
                    idx += 1;
                    if idx % nshards != shard {
                        continue;
                    }
                    for &b2 in &tails {
                        for &b3 in &tails {
                            let x = [lead, b1, b2, b3];
                            check_bytes(&x, st)?;
                            check_decode(&x, st)?;
                            for at in [28usize, 29, 30, 31, 32] {
                                frame[at..at + 4].copy_from_slice(&x);
                                let r = check_bytes(&frame, st);
                                for b in &mut frame[at..at + 4] {
                                    *b = b'a';
                                }
                                r?;
                            }
                            st.cases += 1;
                        }
                    }
                }
            }
            Ok(())
        },
    );

    cx.exhaustive(
        "every-code-point-encode-decode",
        "cp in 0..=0x110400: encode_code_point = char::encode_utf8 for scalar values, None otherwise; decode_code_point(encode(cp)) == (cp,len) also with trailing garbage; validators accept the encoding inside a frame at offsets 30/31",
        true,
        |shard, nshards, st| {
            let mut cp = shard as u32;
            let mut frame = vec![b'a'; 72];
            while cp <= 0x110400 {
                let exp: Option<Vec<u8>> = char::from_u32(cp).map(|c| {
                    let mut b = [0u8; 4];
                    c.encode_utf8(&mut b).as_bytes().to_vec()
                });
                let act = encode_code_point(cp);
                let act_v = act.map(|(b, n)| b[..n.min(4)].to_vec());
                st.evals(1);
                if exp != act_v {
                    let shape = match (&exp, &act_v) {
                        (None, Some(_)) => "encodes-non-scalar",
                        (Some(_), None) => "rejects-scalar",
                        _ => "wrong-bytes",
                    };
                    fail!(format!("C13/encode_code_point/{}", shape), {"cp": format!("U+{:04X}", cp), "expected": format!("{:02x?}", exp), "actual": format!("{:02x?}", act)});
                }
                if let Some((buf, n)) = act {
                    // unused tail of the 4-byte buffer: the documented examples slice [..len]; decode on exact and padded input
                    let d = decode_code_point(&buf[..n]);
                    check_eq!("C13/decode-of-encode", Some((cp, n)), d, {"cp": format!("U+{:04X}", cp)});
                    let mut padded = buf[..n].to_vec();
                    padded.extend_from_slice(&[0xff, 0x80]);
                    let d = decode_code_point(&padded);
                    check_eq!("C13/decode-of-encode-with-trailing-bytes", Some((cp, n)), d, {"cp": format!("U+{:04X}", cp)});
                    st.evals(2);
                    if cp >= 0x80 {
                        for at in [30usize, 31] {
                            frame[at..at + n].copy_from_slice(&buf[..n]);
                            let r = check_bytes(&frame, st);
                            for b in &mut frame[at..at + n] {
                                *b = b'a';
                            }
                            r?;
                        }
                    }
                }
                st.cases += 1;
                cp += nshards as u32;
            }
            Ok(())
        },
    );
}
