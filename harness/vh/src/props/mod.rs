pub mod c01;
pub mod c02;
pub mod c03;
pub mod c04;
pub mod c05;
pub mod c06;
pub mod c07;
pub mod c08;
pub mod c09;
pub mod c10;
pub mod c11;
pub mod c12;
pub mod c13;
pub mod c14;
pub mod c15;
pub mod c16;
pub mod c17;
pub mod c18;
pub mod c19;
pub mod c20;
pub mod c21;
pub mod c22;
pub mod c23;
pub mod c24;
pub mod c25;
pub mod c26;
pub mod c27;
pub mod c28;
pub mod c29;
pub mod c30;
pub mod c31;
pub mod c32;

use crate::engine::Ctx;
pub type Runner = fn(&mut Ctx);

/// (property id, run function, property-level rule text)
pub fn registry() -> Vec<(&'static str, Runner, &'static str)> {
    vec![
        ("C01", c01::run as Runner, c01::RULE),
        ("C02", c02::run as Runner, c02::RULE),
        ("C03", c03::run as Runner, c03::RULE),
        ("C04", c04::run as Runner, c04::RULE),
        ("C05", c05::run as Runner, c05::RULE),
        ("C06", c06::run as Runner, c06::RULE),
        ("C07", c07::run as Runner, c07::RULE),
        ("C08", c08::run as Runner, c08::RULE),
        ("C09", c09::run as Runner, c09::RULE),
        ("C10", c10::run as Runner, c10::RULE),
        ("C11", c11::run as Runner, c11::RULE),
        ("C12", c12::run as Runner, c12::RULE),
        ("C13", c13::run as Runner, c13::RULE),
        ("C14", c14::run as Runner, c14::RULE),
        ("C15", c15::run as Runner, c15::RULE),
        ("C16", c16::run as Runner, c16::RULE),
        ("C17", c17::run as Runner, c17::RULE),
        ("C18", c18::run as Runner, c18::RULE),
        ("C19", c19::run as Runner, c19::RULE),
        ("C20", c20::run as Runner, c20::RULE),
        ("C21", c21::run as Runner, c21::RULE),
        ("C22", c22::run as Runner, c22::RULE),
        ("C23", c23::run as Runner, c23::RULE),
        ("C24", c24::run as Runner, c24::RULE),
        ("C25", c25::run as Runner, c25::RULE),
        ("C26", c26::run as Runner, c26::RULE),
        ("C27", c27::run as Runner, c27::RULE),
        ("C28", c28::run as Runner, c28::RULE),
        ("C29", c29::run as Runner, c29::RULE),
        ("C30", c30::run as Runner, c30::RULE),
        ("C31", c31::run as Runner, c31::RULE),
        ("C32", c32::run as Runner, c32::RULE),
    ]
}
