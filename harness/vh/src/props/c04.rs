//! C04 — BalancedParens navigation = linear-scan definition (DESIGN §4 C04).
//!
//! Oracle: one left-to-right pass with an explicit stack (mate / parent tables,
//! prefix counts) over the first `len` bits, cross-checked on sampled positions
//! against literal excess scans (both written in `gen::bp`). Every constructor
//! family (owned / borrowed; NoSelect / deprecated WithSelect / WithCsPoppy at
//! sample rates 1..=4096; with and without stray 1-bits in the final word) is
//! built over the same sequence and must give the oracle's answers, as must the
//! free functions `find_close / find_open / enclose (words, len, p)`.
#![allow(deprecated)]
use crate::engine::*;
use crate::gen::bp::{self, Shape, Tables, NONE};
use serde_json::json;
use succinctly::trees::{self, BalancedParens, NoSelect, SelectSupport, WithCsPoppy, WithSelect};
use succinctly::Config;

pub const RULE: &str = "G-bp bit sequences built from segments (balanced random walks, deep nests, wide flat, combs, long monotone runs, raw random bits, negative-excess prefixes, unmatched open tails, all-open, all-close, mixtures, optional enclosing pair, optional truncation; 0..=6000 bits quick, up to 300 000 bits = >4 L2 blocks and nesting depth up to 150 000 in thorough), stored in exactly ceil(len/64) words with the bits past len in the final word left clear / set to ones / random; built as owned NoSelect, borrowed NoSelect, WithCsPoppy (owned/borrowed, default and Config rates {1,2,3,7,64,255,256,257,512,4095,4096} U [1,4096]) and deprecated WithSelect (owned/borrowed). Positions: all (len<=700) or every word/2048/65536 boundary +-2, opens whose pair spans a 2048-bit boundary and their mates, random positions, a dense window, and out-of-range p. Every answer is compared with stack/prefix tables over the first len bits. Non-trivial: len > 64 with a matched pair spanning a word boundary; distinct by hash(words,len).";

const RATES: &[u32] = &[1, 2, 3, 7, 64, 255, 256, 257, 512, 4095, 4096];

fn rate(u: &mut Src) -> u32 {
    if u.ratio(2, 3) {
        *u.pick(RATES)
    } else {
        u.range(1, 4096) as u32
    }
}

pub struct Case {
    /// exact storage, bits past len clear
    pub clean: Vec<u64>,
    /// same, with stray bits in the final word (may equal `clean`)
    pub stray: Vec<u64>,
    pub len: usize,
    pub shape: Shape,
    pub stray_kind: &'static str,
    pub rate: u32,
    pub rate2: u32,
    pub variant_mask: u32,
}

fn make_case(u: &mut Src, b: bp::BitBuf, shape: Shape) -> Case {
    let len = b.len;
    let clean = b.words;
    let mut stray = clean.clone();
    let mut stray_kind = "none";
    if len % 64 != 0 {
        let hi = !((1u64 << (len % 64)) - 1);
        let l = stray.len() - 1;
        match u.below(4) {
            0 => {}
            1 => {
                stray[l] |= hi;
                stray_kind = "all-ones";
            }
            2 => {
                stray[l] |= hi & u.u64();
                stray_kind = "random";
            }
            _ => {
                stray[l] |= 1u64 << (len % 64); // just the first bit past len
                stray_kind = "first-bit-past-len";
            }
        }
        if stray[l] == clean[l] {
            stray_kind = "none";
        }
    }
    Case { clean, stray, len, shape, stray_kind, rate: rate(u), rate2: rate(u), variant_mask: u.u32() }
}

// ------------------------------------------------------------------ query points

pub struct Points {
    pub pos: Vec<usize>,
    pub ranks: Vec<usize>,
    pub ks1: Vec<usize>,
    pub ks0: Vec<usize>,
    /// bit-step budget for the linear-time operations (find_open, enclose), per variant
    pub linear_budget: usize,
}

fn points(u: &mut Src, t: &Tables, rates: &[u32], nrandom: usize, linear_budget: usize) -> Points {
    let len = t.len;
    let mut pos: Vec<usize> = Vec::new();
    if len <= 700 {
        pos.extend(0..len + 3);
    } else {
        let step = if len <= 8192 { 64 } else { 2048 };
        let mut b = 0usize;
        while b <= len + 64 {
            for d in [-2isize, -1, 0, 1, 2] {
                let p = b as isize + d;
                if p >= 0 {
                    pos.push(p as usize);
                }
            }
            b += step;
        }
        let mut b = 65536usize;
        while b <= len {
            pos.extend(b - 3..b + 3);
            b += 65536;
        }
        // a few random word boundaries
        for _ in 0..40 {
            let w = u.range(0, len / 64) * 64;
            pos.extend([w.saturating_sub(1), w, w + 1]);
        }
        for _ in 0..nrandom {
            pos.push(u.range(0, len - 1));
        }
        let s = u.range(0, len - 1);
        pos.extend(s..(s + 130).min(len));
        // pairs spanning L1 boundaries: the opens and their mates
        let stride = (t.spanning.len() / 400).max(1);
        for &o in t.spanning.iter().step_by(stride) {
            pos.push(o as usize);
            if t.mate[o as usize] != NONE {
                pos.push(t.mate[o as usize] as usize);
            }
        }
        pos.extend([0, 1, 2, len - 2, len - 1, len, len + 1, len + 2]);
    }
    pos.extend([len + 63, len + 64, len + 65, 1 << 32, (1 << 32) + 1, usize::MAX - 1, usize::MAX]);
    let mut ranks = pos.clone();
    ranks.extend(len..len + 131);
    let sel = |u: &mut Src, n: usize, extra: &[u32]| -> Vec<usize> {
        let mut v: Vec<usize> = if n <= 700 {
            (0..n + 3).collect()
        } else {
            let mut v: Vec<usize> = (0..nrandom).map(|_| u.range(0, n + 1)).collect();
            v.extend([0, 1, n - 1, n, n + 1]);
            for &r in extra {
                let r = r as usize;
                for _ in 0..30 {
                    let m = u.range(0, n / r) * r;
                    v.extend([m.saturating_sub(1), m, m + 1]);
                }
                v.extend([(n / r) * r, ((n / r) * r).saturating_sub(1)]);
            }
            v
        };
        v.extend([1 << 32, (1 << 32) + 1, usize::MAX - 1, usize::MAX]);
        v
    };
    let ks1 = sel(u, t.pos1.len(), rates);
    let ks0 = sel(u, t.pos0.len(), &[]);
    Points { pos, ranks, ks1, ks0, linear_budget }
}

// ------------------------------------------------------------------ expected answers

fn opt(x: u32) -> Option<usize> {
    if x == NONE {
        None
    } else {
        Some(x as usize)
    }
}

struct Exp<'a> {
    t: &'a Tables,
    w: &'a [u64],
}

impl Exp<'_> {
    fn bit(&self, p: usize) -> bool {
        (self.w[p / 64] >> (p % 64)) & 1 == 1
    }
    fn is_open(&self, p: usize) -> bool {
        p < self.t.len && self.bit(p)
    }
    fn is_close(&self, p: usize) -> bool {
        p < self.t.len && !self.bit(p)
    }
    fn find_close(&self, p: usize) -> Option<usize> {
        if self.is_open(p) {
            opt(self.t.mate[p])
        } else {
            None
        }
    }
    fn find_open(&self, p: usize) -> Option<usize> {
        if self.is_close(p) {
            opt(self.t.mate[p])
        } else {
            None
        }
    }
    fn enclose(&self, p: usize) -> Option<usize> {
        if self.is_open(p) {
            opt(self.t.parent[p])
        } else {
            None
        }
    }
    fn first_child(&self, p: usize) -> Option<usize> {
        if self.is_open(p) && self.is_open(p + 1) {
            Some(p + 1)
        } else {
            None
        }
    }
    fn next_sibling(&self, p: usize) -> Option<usize> {
        let c = self.find_close(p)?;
        if self.is_open(c + 1) {
            Some(c + 1)
        } else {
            None
        }
    }
    fn subtree_size(&self, p: usize) -> Option<usize> {
        self.find_close(p).map(|c| (c - p) / 2)
    }
    fn rank1(&self, p: usize) -> usize {
        self.t.ones[p.min(self.t.len)] as usize
    }
    /// opens minus closes in [0, p], p < len
    fn excess(&self, p: usize) -> i64 {
        2 * self.t.ones[p + 1] as i64 - (p as i64 + 1)
    }
}

#[derive(Clone, Copy, PartialEq)]
enum Sel {
    None,
    Index,
}

fn check_variant<W: AsRef<[u64]>, S: SelectSupport>(
    bp: &BalancedParens<W, S>,
    e: &Exp,
    pts: &Points,
    sel: Sel,
    vname: &str,
    info: &dyn Fn() -> serde_json::Value,
    st: &mut Stats,
) -> Result<(), Fail> {
    let len = e.t.len;
    let n1 = e.t.pos1.len();
    check_eq!("C04/len", len, bp.len(), {"variant": vname, "case": info()});
    check_eq!("C04/is_empty", len == 0, bp.is_empty(), {"variant": vname, "case": info()});
    check_eq!("C04/total_ones", n1, bp.total_ones(), {"variant": vname, "case": info()});
    check_eq!("C04/total_zeros", len - n1, bp.total_zeros(), {"variant": vname, "case": info()});
    let mut evals = 4u64;
    let mut budget_open = pts.linear_budget;
    let mut budget_encl = pts.linear_budget;
    for &p in &pts.pos {
        let d = |api: &str| json!({"variant": vname, "api": api, "p": p, "case": info()});
        check_eq!("C04/is_open", e.is_open(p), bp.is_open(p), d("is_open"));
        check_eq!("C04/is_close", e.is_close(p), bp.is_close(p), d("is_close"));
        check_eq!("C04/find_close", e.find_close(p), bp.find_close(p), d("find_close"));
        check_eq!("C04/first_child", e.first_child(p), bp.first_child(p), d("first_child"));
        check_eq!("C04/next_sibling", e.next_sibling(p), bp.next_sibling(p), d("next_sibling"));
        check_eq!("C04/subtree_size", e.subtree_size(p), bp.subtree_size(p), d("subtree_size"));
        evals += 6;
        if p < len {
            let x = e.excess(p);
            check_eq!("C04/excess", x, bp.excess(p) as i64, d("excess"));
            if x >= 0 {
                check_eq!("C04/depth", Some(x as usize), bp.depth(p), d("depth"));
            }
            evals += 2;
        } else {
            check_eq!("C04/depth", None::<usize>, bp.depth(p), d("depth"));
            evals += 1;
        }
        // linear-time scans: bounded by expected scan distance
        let fo = e.find_open(p);
        let cost = if e.is_close(p) { p - fo.unwrap_or(0) } else { 0 };
        if cost <= budget_open {
            budget_open -= cost;
            check_eq!("C04/find_open", fo, bp.find_open(p), d("find_open"));
            evals += 1;
        }
        let en = e.enclose(p);
        let cost = if e.is_open(p) { (p - en.unwrap_or(0)) / 8 } else { 0 };
        if cost <= budget_encl {
            budget_encl -= cost;
            check_eq!("C04/enclose", en, bp.enclose(p), d("enclose"));
            check_eq!("C04/parent", en, bp.parent(p), d("parent"));
            evals += 2;
        }
    }
    for &p in &pts.ranks {
        let r1 = e.rank1(p);
        let r0 = p.min(len) - r1;
        check_eq!("C04/rank1", r1, bp.rank1(p), {"variant": vname, "p": p, "case": info()});
        check_eq!("C04/rank0", r0, bp.rank0(p), {"variant": vname, "p": p, "case": info()});
    }
    evals += 2 * pts.ranks.len() as u64;
    for &k in &pts.ks1 {
        let exp = match sel {
            Sel::None => None, // documented: NoSelect always returns None
            Sel::Index => e.t.pos1.get(k).map(|&x| x as usize),
        };
        if sel == Sel::None {
            check_eq!("C04/select1/NoSelect", exp, bp.select1(k), {"variant": vname, "k": k, "case": info()});
        } else {
            check_eq!("C04/select1", exp, bp.select1(k), {"variant": vname, "k": k, "case": info()});
        }
    }
    for &k in &pts.ks0 {
        check_eq!("C04/select0", e.t.pos0.get(k).map(|&x| x as usize), bp.select0(k), {"variant": vname, "k": k, "case": info()});
    }
    evals += (pts.ks1.len() + pts.ks0.len()) as u64;
    st.evals(evals);
    Ok(())
}

fn check_free(words: &[u64], e: &Exp, pts: &Points, wname: &str, info: &dyn Fn() -> serde_json::Value, st: &mut Stats) -> Result<(), Fail> {
    let len = e.t.len;
    let mut budget_open = pts.linear_budget;
    let mut budget_encl = pts.linear_budget;
    let mut evals = 0u64;
    for &p in &pts.pos {
        let d = |api: &str| json!({"variant": wname, "api": api, "p": p, "case": info()});
        check_eq!("C04/free/find_close", e.find_close(p), trees::find_close(words, len, p), d("find_close"));
        evals += 1;
        let fo = e.find_open(p);
        let cost = if e.is_close(p) { p - fo.unwrap_or(0) } else { 0 };
        if cost <= budget_open {
            budget_open -= cost;
            check_eq!("C04/free/find_open", fo, trees::find_open(words, len, p), d("find_open"));
            evals += 1;
        }
        let en = e.enclose(p);
        let cost = if e.is_open(p) { (p - en.unwrap_or(0)) / 8 } else { 0 };
        if cost <= budget_encl {
            budget_encl -= cost;
            check_eq!("C04/free/enclose", en, trees::enclose(words, len, p), d("enclose"));
            evals += 1;
        }
    }
    st.evals(evals);
    Ok(())
}

/// the stack tables against the literal excess-scan definitions (harness self-check)
fn selfcheck(c: &Case, t: &Tables, u: &mut Src, n: usize) -> Result<(), Fail> {
    let len = c.len;
    if len == 0 {
        return Ok(());
    }
    let e = Exp { t, w: &c.clean };
    for i in 0..n {
        let p = if i < 4 { [0, len - 1, len / 2, len / 3][i] } else { u.range(0, len - 1) };
        let a = (bp::scan_find_close(&c.clean, len, p), bp::scan_find_open(&c.clean, len, p), bp::scan_enclose(&c.clean, len, p));
        let b = (e.find_close(p), e.find_open(p), e.enclose(p));
        if a != b {
            fail!("C04/oracle-selfcheck", {"note": "HARNESS BUG: stack tables disagree with the literal scan definition", "p": p, "scan": format!("{:?}", a), "tables": format!("{:?}", b)});
        }
    }
    Ok(())
}

fn describe(c: &Case) -> serde_json::Value {
    json!({
        "len": c.len, "n_words": c.stray.len(), "shape": format!("{:?}", c.shape), "stray": c.stray_kind,
        "rate": c.rate, "rate2": c.rate2, "variant_mask": c.variant_mask,
        "words_hex_with_strays": c.stray.iter().take(1100).map(|w| format!("{:016x}", w)).collect::<Vec<_>>(),
        "words_hash": format!("{:016x}", hash_words(&c.stray)),
    })
}

fn classify(c: &Case, t: &Tables, st: &mut Stats) {
    let len = c.len;
    st.size(len);
    st.class(&format!("shape-{:?}", c.shape));
    let final_excess = 2 * t.pos1.len() as i64 - len as i64;
    let unbalanced = t.min_excess < 0 || final_excess != 0;
    let nt = len > 64 && t.pair_spans_word;
    if nt {
        st.class("nontrivial");
        st.nontrivial(mix64(hash_words(&c.stray) ^ len as u64));
    }
    st.class_if(unbalanced, "unbalanced");
    st.class_if(!unbalanced && len > 0, "balanced");
    st.class_if(t.min_excess < 0, "negative-excess-prefix");
    st.class_if(t.min_excess < 0, "has-positions-where-depth-is-not-asserted");
    st.class_if(final_excess > 0, "unmatched-open-tail");
    st.class_if(t.pair_spans_l1, "pair-spans-L1-block(2048)");
    st.class_if(t.pair_spans_l2, "pair-spans-L2-block(65536)");
    st.class_if(t.max_depth > 64, "depth>64");
    st.class_if(t.max_depth > 2048, "depth>2048");
    st.class_if(t.max_depth > 32767, "depth>32767");
    st.class_if(c.stray_kind != "none", "strays-present");
    st.class_if(len % 64 != 0, "len-not-multiple-of-64");
    st.class_if(c.rate != 256, "rate!=256");
    st.class_if(len > 2048, "len>2048");
    st.class_if(len > 65536, "len>65536");
    st.class_if(len > 4 * 65536, "len>4-L2-blocks");
    let cls = if t.max_depth > 32767 {
        "deep>32767"
    } else if t.pair_spans_l1 {
        "spans-L1"
    } else if unbalanced {
        "unbalanced"
    } else {
        "balanced"
    };
    st.sample(cls, || {
        json!({"len": len, "shape": format!("{:?}", c.shape), "stray": c.stray_kind, "rate": [c.rate, c.rate2], "max_depth": t.max_depth, "min_excess": t.min_excess,
               "head": (0..len.min(96)).map(|i| if (c.clean[i / 64] >> (i % 64)) & 1 == 1 { '(' } else { ')' }).collect::<String>()})
    });
}

pub fn check_case(c: &Case, u: &mut Src, st: &mut Stats, large: bool) -> Result<(), Fail> {
    let len = c.len;
    let t = bp::tables(&c.clean, len);
    classify(c, &t, st);
    selfcheck(c, &t, u, if large { 12 } else { 24 })?;
    let e = Exp { t: &t, w: &c.clean };
    let pts = points(u, &t, &[c.rate, c.rate2, 256], if large { 1500 } else { 250 }, if large { 3_000_000 } else { 300_000 });
    let info = || json!({"len": len, "shape": format!("{:?}", c.shape), "stray": c.stray_kind, "rate": c.rate, "rate2": c.rate2, "words_hex_with_strays": c.stray.iter().take(64).map(|w| format!("{:016x}", w)).collect::<Vec<_>>()});
    let m = c.variant_mask;
    let pickw = |bit: u32| -> &Vec<u64> { if (m >> bit) & 1 == 1 { &c.stray } else { &c.clean } };

    // 1. owned NoSelect (storage with strays: the constructor must mask them)
    {
        let b = BalancedParens::new(c.stray.clone(), len);
        check_variant(&b, &e, &pts, Sel::None, "new(owned,NoSelect)", &info, st)?;
        st.class("variant-owned-NoSelect");
    }
    // 2. borrowed NoSelect over the stray storage (cannot be masked in place)
    {
        let b: BalancedParens<&[u64], NoSelect> = BalancedParens::from_words(&c.stray[..], len);
        check_variant(&b, &e, &pts, Sel::None, "from_words(borrowed,NoSelect)", &info, st)?;
        st.class("variant-borrowed-NoSelect");
    }
    // 3. CS-Poppy at the case's rate, owned or borrowed
    if (m >> 8) & 1 == 1 {
        let b = BalancedParens::new_with_cspoppy_config(pickw(0).clone(), len, Config { select_sample_rate: c.rate });
        check_variant(&b, &e, &pts, Sel::Index, "new_with_cspoppy_config(owned)", &info, st)?;
        st.class("variant-owned-CsPoppy-rate");
    } else {
        let b: BalancedParens<&[u64], WithCsPoppy> =
            BalancedParens::from_words_with_cspoppy_config(&pickw(0)[..], len, Config { select_sample_rate: c.rate });
        check_variant(&b, &e, &pts, Sel::Index, "from_words_with_cspoppy_config(borrowed)", &info, st)?;
        st.class("variant-borrowed-CsPoppy-rate");
    }
    // 4. a second rate / the default-rate constructors
    match (m >> 9) & 3 {
        0 => {
            let b = BalancedParens::new_with_cspoppy(pickw(1).clone(), len);
            check_variant(&b, &e, &pts, Sel::Index, "new_with_cspoppy(owned,default-rate)", &info, st)?;
            st.class("variant-owned-CsPoppy-default");
        }
        1 => {
            let b: BalancedParens<&[u64], WithCsPoppy> = BalancedParens::from_words_with_cspoppy(&pickw(1)[..], len);
            check_variant(&b, &e, &pts, Sel::Index, "from_words_with_cspoppy(borrowed,default-rate)", &info, st)?;
            st.class("variant-borrowed-CsPoppy-default");
        }
        2 => {
            let b: BalancedParens<&[u64], WithCsPoppy> =
                BalancedParens::from_words_with_cspoppy_config(&c.stray[..], len, Config { select_sample_rate: c.rate2 });
            check_variant(&b, &e, &pts, Sel::Index, "from_words_with_cspoppy_config(borrowed,rate2)", &info, st)?;
            st.class("variant-borrowed-CsPoppy-rate");
        }
        _ => {
            let b = BalancedParens::new_with_cspoppy_config(c.stray.clone(), len, Config { select_sample_rate: c.rate2 });
            check_variant(&b, &e, &pts, Sel::Index, "new_with_cspoppy_config(owned,rate2)", &info, st)?;
            st.class("variant-owned-CsPoppy-rate");
        }
    }
    // 5. deprecated WithSelect, owned or borrowed
    match (m >> 11) & 3 {
        0 => {
            let b = BalancedParens::new_with_select(pickw(2).clone(), len);
            check_variant(&b, &e, &pts, Sel::Index, "new_with_select(owned,WithSelect)", &info, st)?;
            st.class("variant-owned-WithSelect");
        }
        1 => {
            let b: BalancedParens<&[u64], WithSelect> = BalancedParens::from_words_with_select(&pickw(2)[..], len);
            check_variant(&b, &e, &pts, Sel::Index, "from_words_with_select(borrowed,WithSelect)", &info, st)?;
            st.class("variant-borrowed-WithSelect");
        }
        _ => {}
    }
    // 6. an owning generic storage through from_words (Vec<u64> as W)
    if (m >> 13) & 1 == 1 {
        let b: BalancedParens<Vec<u64>, NoSelect> = BalancedParens::from_words(c.stray.clone(), len);
        check_variant(&b, &e, &pts, Sel::None, "from_words(Vec,NoSelect)", &info, st)?;
    }
    // 7. free functions over the raw words (with and without strays)
    check_free(&c.stray, &e, &pts, "free(words-with-strays)", &info, st)?;
    if c.stray_kind != "none" && (m >> 14) & 1 == 1 {
        check_free(&c.clean, &e, &pts, "free(clean-words)", &info, st)?;
    }
    Ok(())
}

pub fn run(cx: &mut Ctx) {
    cx.assume("reference model: explicit-stack pass + prefix counts over the first len bits (harness code), cross-checked per case against literal forward/backward excess scans on sampled positions");
    cx.assume("storage is exactly ceil(len/64) words (the documented contract masks strays in the final word only); len <= u32::MAX");
    cx.assume("depth(p) is asserted only where excess(p) >= 0; NoSelect::select1 is asserted to be None as documented; find_open/enclose calls are bounded by a per-variant scan-distance budget on large inputs");
    let quick = cx.tier == Tier::Quick;
    let max_bits = 6000;
    cx.check(
        "bp-vs-scan",
        RULE,
        Budget { quick: 80_000, thorough: 1_500_000, max_len: 3000 },
        |u, st| {
            let (b, shape) = bp::sequence(u, max_bits);
            let c = make_case(u, b, shape);
            st.describe(|| describe(&c));
            check_case(&c, u, st, false)
        },
    );
    for cl in [
        "nontrivial",
        "unbalanced",
        "balanced",
        "negative-excess-prefix",
        "unmatched-open-tail",
        "pair-spans-L1-block(2048)",
        "depth>64",
        "depth>2048",
        "strays-present",
        "rate!=256",
        "len>2048",
        "variant-owned-WithSelect",
        "variant-borrowed-WithSelect",
        "variant-owned-CsPoppy-rate",
        "variant-borrowed-CsPoppy-rate",
        "variant-owned-CsPoppy-default",
        "variant-borrowed-CsPoppy-default",
    ] {
        cx.require_class("bp-vs-scan", cl, 20);
    }
    if !quick {
        cx.check(
            "bp-vs-scan-large",
            "as above on 66 000..330 000-bit sequences (2..6 L2 blocks) and dedicated nests of depth 32 768..150 000; sampled positions (every 2048/65536-bit boundary +-2, spanning pairs and mates, 1500 random, a dense window)",
            Budget { quick: 0, thorough: 2_500, max_len: 3000 },
            |u, st| {
                let (b, shape) = if u.ratio(1, 3) { bp::deep_sequence(u, 32_768, 150_000) } else { bp::sequence_in(u, 66_000, 330_000) };
                let c = make_case(u, b, shape);
                st.describe(|| describe(&c));
                check_case(&c, u, st, true)
            },
        );
        for cl in ["depth>32767", "pair-spans-L2-block(65536)", "len>65536", "len>4-L2-blocks", "unbalanced", "strays-present"] {
            cx.require_class("bp-vs-scan-large", cl, 10);
        }
    }
}
