//! C15 — yq never emits YAML it cannot read back (DESIGN §4 C15). Black-box, engine E2.
//!
//! One case = (G-yaml stream, write-fragment program, `-I n`). Three spawns:
//!
//! ```text
//! Y = succinctly yq -I n --from-file prog doc.yaml          (YAML, the subject)
//! J = succinctly yq -o json -I0 --from-file prog doc.yaml   (what the same run prints as JSON)
//! R = succinctly yq -o json -I0 . Y.yaml                    (Y read back)
//! ```
//!
//! Oracle (metamorphic, derived from the statement): exit(Y) == exit(J); when both are 0 and
//! every value of J is a mapping or sequence (a root scalar is printed unwrapped by the
//! documented `-r` default and is not meant to be re-read): R succeeds and
//! `values(R) == values(J)` under O-jsonval (numbers as doubles, object fields in order).
//! `-I 8` is outside the accepted 0..=7: both runs must fail with the same usage error.
//! Alias soundness is read off Y with the library (`YamlIndex::build(Y)` must succeed; every
//! alias node has a target, in the same document, at a smaller byte offset, whose JSON value
//! equals the value J prints at the alias's path). Exit status 101 / death by signal in any
//! of the three runs is a violation (`C15/crash/...`); a watchdog timeout discards the case.
//!
//! Sub-checks
//! * `reread` — the search described above, G-yaml `full()` minus the trigger shapes of the
//!   open *loader* findings (C14's business), programs from `gen::yqprog::gen_write`.
//!   Shapes of C15's own open findings are avoided by construction while they are listed
//!   as `known` (the flags are derived from `known_findings.json`, so a finding that becomes
//!   `fixed` is generated again automatically).
//! * `quoting-matrix` — one string of the G-yaml palette written by a program into one
//!   position of a fixed document (block value, value inside a flow collection, block key,
//!   key inside a flow mapping); same oracle. A failure is attributed to (position, known
//!   quoting gap of the string) — `known_quoting_gap` is the executable trigger predicate of
//!   the DOM emitter's open quoting findings — or to `unexplained:<class>` (a violation).
//! * `open-finding-shapes` — the `reread` search with the shapes of C15's own findings
//!   generated on purpose: every failure there must carry a listed signature (counted),
//!   anything else is a violation.
//!
//! Attribution (`check_case`): a failure is renamed to a finding's signature only when the
//! finding's trigger predicate holds on the case itself — fails at `-I 0` and passes
//! unchanged at `-I 2`; a string differs by a spliced `# comment` / one lost trailing line
//! break and the input has a block scalar and a comment; a string differs by multiplied
//! leading line breaks (or one added trailing break after two or more) and the input has a
//! folded block scalar; the re-read says `unknown anchor` after a write.
//!
//! Documented, hence neither generated nor asserted: `--sort-keys` and navigation into a
//! sub-tree whose aliases point outside it (streaming-path alias gap #1350,
//! docs/compliance/yq/limitations.md); keys spelled `<<` (merge keys, even quoted); root
//! scalar results (printed unwrapped); an output line `- plain #c: d` (a comment containing
//! `: ` on a line without a key: docs/compliance/yaml/limitations.md "KeyWithoutValue").
//!
//! Structured replays: `{"input": {"yaml" | "yaml_hex", "program", "indent"}}` (a
//! `quoting-matrix` replay also names its `matrix_signature`).
//! Development aid: `VH_C15_SURVEY=<file>` logs every failure and keeps searching.
use crate::cli;
use crate::engine::*;
use crate::gen::json::{j_eq, to_compact, J};
use crate::gen::yaml::{self as gy, Seg, YOpts, YStrings, Y};
use crate::gen::yqprog::{self, ProgMode, WriteProg};
use crate::oracle::jsonval;
use serde_json::{json, Value};
use std::sync::atomic::{AtomicU64, Ordering};
use succinctly::yaml::{YamlCursor, YamlIndex, YamlValue};

pub const RULE: &str = "G-yaml streams (1-2 documents, anchors/aliases, comments, block scalars, quoted and ambiguous-looking strings, LF/CRLF/CR) x write-fragment programs (identity, navigation, =, |=, +=, del, `. * {..}`, `.p *= .q`, //=, pipelines of these) whose paths come from the document (anchored nodes, aliases, nodes inside aliased collections, parents of block scalars, new keys, appended indices, missing paths) x -I 0..=7 (and the rejected 8). Oracle: the YAML output read back by `yq -o json .` equals the JSON output of the same run (O-jsonval values), equal exit statuses, alias soundness read with the library. Non-trivial: a write program and (document has an anchor/alias or a block scalar or a quoted ambiguous-looking string); distinct by hash(document text, program, indent).";

static TIMEOUTS: AtomicU64 = AtomicU64::new(0);

/// Signatures of C15's own findings (see known_findings.json); the generator consults
/// `Ctx::is_known` for each to decide what to avoid.
const SIG_I0: &str = "C15/reread-differs/I0-only";
const SIG_HEADER_COMMENT: &str = "C15/reread-differs/comment-after-block-scalar-content";
const SIG_FOLDED_LEAD: &str = "C15/reread-differs/folded-leading-blank-lines";
const SIG_FOLDED_KEEP: &str = "C15/reread-differs/folded-keep-trailing-line-break-added";
const SIG_NESTED_ANCHOR: &str = "C15/alias-soundness/unknown-anchor/after-write";
/// C14's open loader finding, met in the emitter's own output
const SIG_LOADER_COL0: &str = "C15/reread-differs/loader-empty-value-then-col0-quoted-key";

#[derive(Clone, Debug)]
pub struct Case {
    pub yaml: Vec<u8>,
    pub program: String,
    pub indent: u8,
}

fn trunc(s: &str, n: usize) -> String {
    if s.chars().count() > n {
        format!("{}...", s.chars().take(n).collect::<String>())
    } else {
        s.to_string()
    }
}

/// the first line of stderr that carries the message (no backtrace, no path noise)
fn err_head(o: &cli::CliOut) -> String {
    let s = o.stderr_str();
    trunc(s.lines().find(|l| !l.trim().is_empty()).unwrap_or(""), 200)
}

/// digits → N, quoted text → Q: a stable shape of an error message
fn err_shape(msg: &str) -> String {
    let mut out = String::new();
    let mut last_n = false;
    for c in msg.chars() {
        if c.is_ascii_digit() {
            if !last_n {
                out.push('N');
            }
            last_n = true;
        } else {
            last_n = false;
            out.push(c);
        }
    }
    // cut at the file name / offending text
    let out = out.split(" in /").next().unwrap_or("").to_string();
    trunc(&out, 80)
}

// ---------------------------------------------------------------- classification of strings

/// Why would a YAML emitter have to quote `s`? First matching reason, most specific first.
/// Used only to give failures a narrow, stable signature.
pub fn str_class(s: &str, in_flow_hint: bool) -> &'static str {
    if s.is_empty() {
        return "empty";
    }
    let cs: Vec<char> = s.chars().collect();
    let first = cs[0];
    let last = cs[cs.len() - 1];
    if cs.iter().any(|&c| c == '\n' || c == '\r') {
        return "line-break";
    }
    if cs.iter().any(|&c| (c as u32) < 0x20 && c != '\t' || c as u32 == 0x7f) {
        return "c0-control";
    }
    if cs.iter().any(|&c| matches!(c as u32, 0x80..=0x9f | 0x2028 | 0x2029 | 0xfeff | 0xfffe | 0xffff)) {
        return "c1-or-unicode-break";
    }
    if first == ' ' {
        return "leading-space";
    }
    if last == ' ' {
        return "trailing-space";
    }
    if first == '\t' || last == '\t' {
        return "edge-tab";
    }
    if cs.contains(&'\t') {
        return "inner-tab";
    }
    let l = s.to_ascii_lowercase();
    if matches!(l.as_str(), "null" | "~" | "true" | "false") {
        return "null-bool-word";
    }
    let unsigned = l.trim_start_matches(['+', '-']);
    if unsigned.starts_with("0x") && unsigned.len() > 2 && unsigned[2..].chars().all(|c| c.is_ascii_hexdigit()) {
        return "hex-int";
    }
    if unsigned.starts_with("0o") && unsigned.len() > 2 && unsigned[2..].chars().all(|c| ('0'..='7').contains(&c)) {
        return "octal-int";
    }
    if matches!(unsigned, ".inf" | ".nan") {
        return "inf-nan";
    }
    if s.parse::<f64>().is_ok() || (unsigned.chars().any(|c| c.is_ascii_digit()) && unsigned.chars().all(|c| c.is_ascii_digit() || "._eE+-".contains(c))) {
        return "number-like";
    }
    if s.contains(": ") || last == ':' {
        return "colon-space";
    }
    if s.contains(" #") {
        return "space-hash";
    }
    if "-?:".contains(first) && (cs.len() == 1 || cs[1] == ' ') {
        return "block-indicator-start";
    }
    if ",[]{}#&*!|>'\"%@`".contains(first) {
        return "indicator-start";
    }
    if s == "---" || s == "..." || s.starts_with("--- ") || s.starts_with("... ") {
        return "document-marker";
    }
    if cs.iter().any(|&c| ",[]{}".contains(c)) {
        return if in_flow_hint { "flow-indicator-inside" } else { "flow-indicator-inside" };
    }
    if s == "<<" {
        return "merge-key";
    }
    if cs.iter().any(|&c| c == ':' || c == '#') {
        return "colon-or-hash-inside";
    }
    "other"
}

// ---------------------------------------------------------------- value diff

#[derive(Debug)]
struct Diff {
    path: String,
    /// signature fragment
    what: String,
    expected: String,
    actual: String,
}

fn jpath(p: &[Seg]) -> String {
    gy::path_str(p)
}

/// `got` = `want` with ` #...` inserted at the end of its last content line
fn comment_spliced(want: &str, got: &str) -> bool {
    let body = want.trim_end_matches('\n');
    let tail = &want[body.len()..];
    match got.strip_prefix(body) {
        Some(rest) => {
            let rest = rest.strip_suffix(tail).unwrap_or(rest);
            let t = rest.trim_start_matches([' ', '\t']);
            t.len() < rest.len() && t.starts_with('#') && !t.contains('\n')
        }
        None => false,
    }
}

/// `got` = `want` with more leading line breaks *and* exactly one more trailing line break
/// after two or more (both folded-scalar findings at once)
fn both_break_runs_grown(want: &str, got: &str) -> bool {
    let (wl, gl) = (want.trim_start_matches('\n'), got.trim_start_matches('\n'));
    let (kw, kg) = (want.len() - wl.len(), got.len() - gl.len());
    kw >= 1 && kg > kw && wl.ends_with("\n\n") && gl.len() == wl.len() + 1 && gl.starts_with(wl) && gl.ends_with('\n')
}

/// `got` = `want` with more line breaks in front of the same text
fn leading_breaks_multiplied(want: &str, got: &str) -> bool {
    let (w, g) = (want.trim_start_matches('\n'), got.trim_start_matches('\n'));
    let (kw, kg) = (want.len() - w.len(), got.len() - g.len());
    kw >= 1 && kg > kw && w == g
}

/// The YAML text has a block scalar header (`|`, `>` with chomping / indentation
/// indicators, at the end of a line or before a comment) and, somewhere, a `#`. Textual
/// approximation used only to attribute a failure whose symptom is already specific.
pub fn has_block_scalar_and_comment(yaml: &[u8]) -> bool {
    let t = String::from_utf8_lossy(yaml);
    let header = t.split(['\n', '\r']).any(|line| {
        let l = line.split(" #").next().unwrap_or("").split("\t#").next().unwrap_or("").trim_end_matches([' ', '\t']);
        let l = l.trim_end_matches(|c: char| c == '+' || c == '-' || c.is_ascii_digit());
        (l.ends_with('>') || l.ends_with('|')) && (l.len() == 1 || l[..l.len() - 1].ends_with([' ', '\t']))
    });
    header && t.contains('#')
}

/// Some line ends in a folded block scalar header (`>`, `>-`, `>+`, optional comment).
pub fn has_folded_header(yaml: &[u8]) -> bool {
    let t = String::from_utf8_lossy(yaml);
    t.split(['\n', '\r']).any(|line| {
        let l = line.split(" #").next().unwrap_or("").trim_end_matches([' ', '\t']);
        let l = l.trim_end_matches(['+', '-']);
        l.ends_with('>') && (l.len() == 1 || l[..l.len() - 1].ends_with([' ', '\t']))
    })
}

fn diff(a: &J, b: &J, p: &mut Vec<Seg>) -> Option<Diff> {
    match (a, b) {
        (J::Arr(x), J::Arr(y)) => {
            for (i, (u, v)) in x.iter().zip(y.iter()).enumerate() {
                p.push(Seg::Idx(i));
                let d = diff(u, v, p);
                p.pop();
                if d.is_some() {
                    return d;
                }
            }
            if x.len() != y.len() {
                return Some(Diff { path: jpath(p), what: "array-length".into(), expected: x.len().to_string(), actual: y.len().to_string() });
            }
            None
        }
        (J::Obj(x), J::Obj(y)) => {
            for ((k1, u), (k2, v)) in x.iter().zip(y.iter()) {
                if k1 != k2 {
                    return Some(Diff { path: jpath(p), what: format!("key:{}", str_class(k1, false)), expected: format!("{:?}", k1), actual: format!("{:?}", k2) });
                }
                p.push(Seg::Key(k1.clone()));
                let d = diff(u, v, p);
                p.pop();
                if d.is_some() {
                    return d;
                }
            }
            if x.len() != y.len() {
                let (e, a) = (x.get(y.len()).map(|e| e.0.clone()), y.get(x.len()).map(|e| e.0.clone()));
                let what = match &e {
                    Some(k) => format!("key:{}", str_class(k, false)),
                    None => "extra-key".to_string(),
                };
                return Some(Diff { path: jpath(p), what, expected: format!("{:?}", e), actual: format!("{:?}", a) });
            }
            None
        }
        _ => {
            if j_eq(a, b) {
                return None;
            }
            let what = match (a, b) {
                // the re-read string is the expected one with ` # ...` spliced in before its
                // trailing line breaks: a comment was written where it becomes content
                (J::Str(s), J::Str(t)) if comment_spliced(s, t) => "str:comment-text-became-content".to_string(),
                (J::Str(s), J::Str(t)) if s.ends_with('\n') && s[..s.len() - 1] == **t => "str:one-trailing-line-break-lost".to_string(),
                (J::Str(s), J::Str(t)) if s.ends_with("\n\n") && t.len() == s.len() + 1 && t.starts_with(s.as_str()) && t.ends_with('\n') => "str:one-trailing-line-break-added".to_string(),
                (J::Str(s), J::Str(t)) if leading_breaks_multiplied(s, t) => "str:leading-line-breaks-multiplied".to_string(),
                (J::Str(s), J::Str(t)) if both_break_runs_grown(s, t) => "str:leading-and-trailing-line-breaks-grown".to_string(),
                (J::Str(s), _) => format!("str:{}", str_class(s, false)),
                _ => format!("{}-reads-as-{}", a.kind(), b.kind()),
            };
            Some(Diff { path: jpath(p), what, expected: trunc(&to_compact(a), 200), actual: trunc(&to_compact(b), 200) })
        }
    }
}

// ---------------------------------------------------------------- alias soundness (library)

struct AliasStats {
    aliases: u32,
    anchors: u32,
}

fn walk_alias(c: YamlCursor<'_>, j: Option<&J>, p: &mut Vec<Seg>, st: &mut AliasStats, depth: usize) -> Result<(), Fail> {
    if depth > 200 {
        return Ok(());
    }
    if c.anchor().is_some() {
        st.anchors += 1;
    }
    match c.value() {
        YamlValue::Alias { target, anchor_name } => {
            st.aliases += 1;
            let t = match target {
                Some(t) => t,
                None => fail!("C15/alias-soundness/unresolved", {"path": jpath(p), "anchor": anchor_name.to_string()}),
            };
            let (tp, cp) = (t.text_position(), c.text_position());
            match (tp, cp) {
                (Some(tp), Some(cp)) if tp < cp => {}
                _ => fail!("C15/alias-soundness/anchor-not-before-alias", {"path": jpath(p), "anchor": anchor_name.to_string(), "anchor_offset": format!("{:?}", tp), "alias_offset": format!("{:?}", cp)}),
            }
            if t.document_index() != c.document_index() {
                fail!("C15/alias-soundness/anchor-in-other-document", {"path": jpath(p), "anchor": anchor_name.to_string()});
            }
            if let Some(j) = j {
                let tj = t.to_json();
                match jsonval::parse_one(tj.as_bytes()) {
                    Ok(tv) if j_eq(&tv, j) => {}
                    Ok(tv) => fail!("C15/alias-soundness/anchor-value-differs", {"path": jpath(p), "anchor": anchor_name.to_string(), "anchor_value": trunc(&to_compact(&tv), 200), "json_run_value": trunc(&to_compact(j), 200)}),
                    Err(e) => fail!("C15/alias-soundness/anchor-value-unreadable", {"path": jpath(p), "json": trunc(&tj, 200), "error": e.msg}),
                }
            }
        }
        YamlValue::Mapping(f) => {
            let mut f = f;
            let mut i = 0usize;
            while let Some((field, rest)) = f.uncons() {
                let k = field.key().key_string().into_owned();
                let sub = match j {
                    Some(J::Obj(o)) => o.get(i).filter(|e| e.0 == k).map(|e| &e.1),
                    _ => None,
                };
                p.push(Seg::Key(k));
                walk_alias(field.value_cursor(), sub, p, st, depth + 1)?;
                p.pop();
                i += 1;
                f = rest;
            }
        }
        YamlValue::Sequence(el) => {
            let mut el = el;
            let mut i = 0usize;
            while let Some((x, rest)) = el.uncons_cursor() {
                let sub = match j {
                    Some(J::Arr(a)) => a.get(i),
                    _ => None,
                };
                p.push(Seg::Idx(i));
                walk_alias(x, sub, p, st, depth + 1)?;
                p.pop();
                i += 1;
                el = rest;
            }
        }
        _ => {}
    }
    Ok(())
}

fn alias_soundness(ytext: &[u8], jvals: &[J]) -> Result<AliasStats, Fail> {
    let mut st = AliasStats { aliases: 0, anchors: 0 };
    let index = match YamlIndex::build(ytext) {
        Ok(i) => i,
        Err(e) => fail!(format!("C15/alias-soundness/build-error/{}", err_shape(&e.to_string())), {"error": e.to_string(), "yaml_output": show_bytes(ytext)}),
    };
    let root = index.root(ytext);
    if let YamlValue::Sequence(docs) = root.value() {
        let mut docs = docs;
        let mut i = 0usize;
        while let Some((d, rest)) = docs.uncons_cursor() {
            let mut p = vec![];
            walk_alias(d, jvals.get(i), &mut p, &mut st, 0)?;
            i += 1;
            docs = rest;
        }
    }
    Ok(st)
}

// ---------------------------------------------------------------- the oracle

#[derive(Debug, PartialEq, Clone, Copy)]
pub enum Outcome {
    /// Y was read back and compared
    Reread { aliases: u32, anchors: u32 },
    /// some result is a root scalar (printed unwrapped): only exit statuses were compared
    ScalarResult,
    /// no result at all
    NoResult,
    /// both runs failed alike
    BothError,
    /// `-I 8`: both runs reported the same usage error
    UsageError,
    /// the output ran into a documented loader limitation (not asserted)
    DocumentedLimit,
    Discarded,
}

/// does the program text contain a write operator of the fragment (`=`, `|=`, `+=`, `*=`,
/// `//=`, `del(`, `. * {`)? Identity and navigation contain none of these characters
/// outside string literals, and the generator quotes keys with `jq_string`, so a `=` inside
/// a key literal would count as a write too — good enough for naming a route.
fn program_writes(p: &str) -> bool {
    p.contains('=') || p.contains("del(") || p.contains(" * ")
}

/// `y` with the comment removed from every line whose comment contains `: ` (or ends in
/// `:`) while the text before the comment has no `key:` of its own; None if there is no such line.
fn strip_colon_comments_on_keyless_lines(y: &[u8]) -> Option<Vec<u8>> {
    let t = String::from_utf8_lossy(y);
    let mut out = String::with_capacity(t.len());
    let mut found = false;
    for line in t.split_inclusive('\n') {
        let (body, nl) = match line.strip_suffix('\n') {
            Some(b) => (b, "\n"),
            None => (line, ""),
        };
        let at = match (body.find(" #"), body.find("\t#")) {
            (Some(a), Some(b)) => Some(a.min(b)),
            (Some(a), None) | (None, Some(a)) => Some(a),
            _ => None,
        };
        if let Some(at) = at {
            let (pre, comment) = body.split_at(at);
            let has_colon = |s: &str| s.contains(": ") || s.contains(":\t") || s.trim_end().ends_with(':');
            if has_colon(comment) && !has_colon(pre) {
                found = true;
                out.push_str(pre);
                out.push_str(nl);
                continue;
            }
        }
        out.push_str(line);
    }
    if found {
        Some(out.into_bytes())
    } else {
        None
    }
}

/// `y` with ` null` written after every block mapping key that has an empty value and is
/// followed by a column-0 line starting with a quoted key (the trigger shape of C14's open
/// loader finding `empty-value-then-col0-quoted-key`); None if the shape does not occur.
fn spell_empty_values_before_col0_quoted_keys(y: &[u8]) -> Option<Vec<u8>> {
    let t = String::from_utf8_lossy(y);
    let lines: Vec<&str> = t.split_inclusive('\n').collect();
    let mut out = String::with_capacity(t.len() + 16);
    let mut found = false;
    for (i, line) in lines.iter().enumerate() {
        let body = line.trim_end_matches('\n');
        // `key:` optionally followed by a comment, nothing else
        let code = match (body.find(" #"), body.find("\t#")) {
            (Some(a), Some(b)) => &body[..a.min(b)],
            (Some(a), None) | (None, Some(a)) => &body[..a],
            _ => body,
        };
        let code_trim = code.trim_end();
        let next_content = lines[i + 1..].iter().map(|l| l.trim_end_matches('\n')).find(|l| !l.trim().is_empty() && !l.trim_start().starts_with('#'));
        let next_is_col0_quoted = matches!(next_content, Some(n) if n.starts_with('"') || n.starts_with('\''));
        if code_trim.ends_with(':') && !code_trim.is_empty() && next_is_col0_quoted {
            found = true;
            out.push_str(code_trim);
            out.push_str(" null");
            out.push_str(&body[code_trim.len()..]);
            if line.ends_with('\n') {
                out.push('\n');
            }
        } else {
            out.push_str(line);
        }
    }
    if found {
        Some(out.into_bytes())
    } else {
        None
    }
}

fn tmp_named(stem: &str, ext: &str, data: &[u8]) -> std::path::PathBuf {
    let mut p = cli::tmp_file(stem).into_os_string();
    p.push(ext);
    let p = std::path::PathBuf::from(p);
    std::fs::write(&p, data).expect("write temp file");
    p
}

fn spawn(args: &[&str]) -> Option<cli::CliOut> {
    let mut o = cli::run(args, None);
    if o.timed_out {
        o = cli::run(args, None);
    }
    if o.timed_out {
        TIMEOUTS.fetch_add(1, Ordering::Relaxed);
        return None;
    }
    Some(o)
}

fn crash_fail(route: &str, o: &cli::CliOut, case: &Case) -> Fail {
    Fail::new(
        format!("C15/crash/{}/{}", route, if o.signal.is_some() { format!("signal-{}", o.signal.unwrap()) } else { "exit-101".into() }),
        json!({"route": route, "stderr": trunc(&o.stderr_str(), 600), "program": case.program, "indent": case.indent, "yaml": show_bytes(&case.yaml)}),
    )
}

/// One evaluation of the oracle at the case's indent.
fn check_once(case: &Case, indent: u8, st: &mut Stats) -> Result<Outcome, Fail> {
    let doc = tmp_named("c15d", ".yaml", &case.yaml);
    let prog = tmp_named("c15p", ".jq", case.program.as_bytes());
    let (docs, progs) = (doc.to_string_lossy().to_string(), prog.to_string_lossy().to_string());
    let ind = indent.to_string();
    let cleanup = |extra: Option<&std::path::Path>| {
        let _ = std::fs::remove_file(&doc);
        let _ = std::fs::remove_file(&prog);
        if let Some(e) = extra {
            let _ = std::fs::remove_file(e);
        }
    };
    let y = spawn(&["yq", "-I", &ind, "--from-file", &progs, &docs]);
    let j = spawn(&["yq", "-o", "json", "-I0", "--from-file", &progs, &docs]);
    st.evals(2);
    let (y, j) = match (y, j) {
        (Some(y), Some(j)) => (y, j),
        _ => {
            cleanup(None);
            return Ok(Outcome::Discarded);
        }
    };
    let detail = |extra: Value| -> Value {
        let mut d = json!({"program": case.program, "indent": indent, "yaml": show_bytes(&case.yaml), "yaml_output": show_bytes(&y.stdout), "json_output": trunc(&j.stdout_str(), 600)});
        if let (Some(m), Some(e)) = (d.as_object_mut(), extra.as_object()) {
            for (k, v) in e {
                m.insert(k.clone(), v.clone());
            }
        }
        d
    };
    if y.crashed() {
        cleanup(None);
        return Err(crash_fail("yaml-run", &y, case));
    }
    if j.crashed() {
        cleanup(None);
        return Err(crash_fail("json-run", &j, case));
    }
    if indent > 7 {
        // the same run with `-I 8` for the JSON side too: both must refuse alike
        let j8 = spawn(&["yq", "-o", "json", "-I", &ind, "--from-file", &progs, &docs]);
        cleanup(None);
        let j8 = match j8 {
            Some(o) => o,
            None => return Ok(Outcome::Discarded),
        };
        if y.code == Some(0) || j8.code == Some(0) || y.code != j8.code || y.stderr != j8.stderr {
            return Err(Fail::new("C15/indent-out-of-range/not-the-same-usage-error", detail(json!({"yaml_exit": y.code, "json_exit": j8.code, "yaml_stderr": err_head(&y), "json_stderr": err_head(&j8)}))));
        }
        return Ok(Outcome::UsageError);
    }
    if y.code != j.code {
        cleanup(None);
        return Err(Fail::new(
            format!("C15/exit-status-differs/yaml={:?}/json={:?}", y.code, j.code),
            detail(json!({"yaml_stderr": err_head(&y), "json_stderr": err_head(&j)})),
        ));
    }
    if y.code != Some(0) {
        cleanup(None);
        return Ok(Outcome::BothError);
    }
    let jvals = match jsonval::parse_stream(&j.stdout) {
        Ok(v) => v,
        Err(e) => {
            cleanup(None);
            return Err(Fail::new("C15/json-output-unparseable", detail(json!({"error": e.msg, "offset": e.offset}))));
        }
    };
    if jvals.is_empty() {
        cleanup(None);
        return Ok(Outcome::NoResult);
    }
    if jvals.iter().any(|v| !v.is_container()) {
        cleanup(None);
        return Ok(Outcome::ScalarResult);
    }
    // R: read Y back. `reread_matches` is the same step on a *patched* copy of Y, used to
    // decide whether a failure is owed to a documented / already listed loader problem.
    let reread_matches = |text: &[u8], st: &mut Stats| -> bool {
        let f = tmp_named("c15y", ".yaml", text);
        let r = spawn(&["yq", "-o", "json", "-I0", ".", &f.to_string_lossy()]);
        st.evals(1);
        let _ = std::fs::remove_file(&f);
        match r {
            Some(r) if r.ok() => match jsonval::parse_stream(&r.stdout) {
                Ok(v) => v.len() == jvals.len() && v.iter().zip(jvals.iter()).all(|(a, b)| j_eq(a, b)),
                Err(_) => false,
            },
            _ => false,
        }
    };
    let yf = tmp_named("c15y", ".yaml", &y.stdout);
    let yfs = yf.to_string_lossy().to_string();
    let r = spawn(&["yq", "-o", "json", "-I0", ".", &yfs]);
    st.evals(1);
    cleanup(Some(&yf));
    let r = match r {
        Some(r) => r,
        None => return Ok(Outcome::Discarded),
    };
    if r.crashed() {
        return Err(crash_fail("reread", &r, case));
    }
    let failure: Option<Fail> = if !r.ok() {
        if err_head(&r).contains("unknown anchor") {
            // an alias without its anchor: name the route (DOM path after a write, or the
            // streaming path)
            let route = if program_writes(&case.program) { "after-write" } else { "after-read" };
            Some(Fail::new(format!("C15/alias-soundness/unknown-anchor/{}", route), detail(json!({"reread_exit": r.code, "reread_stderr": err_head(&r)}))))
        } else {
            Some(Fail::new(format!("C15/reread-error/{}", err_shape(&err_head(&r))), detail(json!({"reread_exit": r.code, "reread_stderr": err_head(&r)}))))
        }
    } else {
        match jsonval::parse_stream(&r.stdout) {
            Err(e) => Some(Fail::new("C15/reread-json-unparseable", detail(json!({"error": e.msg, "reread_output": trunc(&r.stdout_str(), 600)})))),
            Ok(rvals) if rvals.len() != jvals.len() => Some(Fail::new(
                "C15/reread-differs/document-count",
                detail(json!({"expected_documents": jvals.len(), "actual_documents": rvals.len(), "reread_output": trunc(&r.stdout_str(), 600)})),
            )),
            Ok(rvals) => {
                let mut f = None;
                for (i, (a, b)) in jvals.iter().zip(rvals.iter()).enumerate() {
                    if let Some(d) = diff(a, b, &mut vec![]) {
                        f = Some(Fail::new(
                            format!("C15/reread-differs/{}", d.what),
                            detail(json!({"document": i, "path": d.path, "expected": d.expected, "actual": d.actual, "reread_output": trunc(&r.stdout_str(), 600)})),
                        ));
                        break;
                    }
                }
                f
            }
        }
    };
    if let Some(f) = failure {
        if f.sig.starts_with("C15/alias-soundness/") {
            return Err(f);
        }
        // (1) documented loader limitation (docs/compliance/yaml/limitations.md, "A key run
        //     that ends before its `:`": `b #c: d` -> KeyWithoutValue; `- *a #c:` fails the
        //     same way with "expected ':' after key"): a comment containing `: ` (or ending in
        //     `:`) was re-emitted on a line that has no `key:` of its own. Counted as such
        //     only if the output reads back correctly once just those comments are cut.
        if let Some(y2) = strip_colon_comments_on_keyless_lines(&y.stdout) {
            if reread_matches(&y2, st) {
                return Ok(Outcome::DocumentedLimit);
            }
        }
        // (2) C14's open loader finding (`a:` with an empty value followed by a column-0 line
        //     that starts with a quoted key) reached through the emitter's own output: the
        //     output reads back correctly once those empty values are spelled `null`.
        if let Some(y3) = spell_empty_values_before_col0_quoted_keys(&y.stdout) {
            if reread_matches(&y3, st) {
                let mut d = f.detail.clone();
                if let Some(m) = d.as_object_mut() {
                    m.insert("symptom".into(), json!(f.sig));
                    m.insert("attributed_because".into(), json!("the output reads back correctly once `key:` lines followed by a column-0 quoted key are written `key: null`"));
                }
                return Err(Fail::new(SIG_LOADER_COL0, d));
            }
        }
        return Err(f);
    }
    match alias_soundness(&y.stdout, &jvals) {
        Ok(a) => Ok(Outcome::Reread { aliases: a.aliases, anchors: a.anchors }),
        Err(mut f) => {
            if let Some(m) = f.detail.as_object_mut() {
                m.insert("program".into(), json!(case.program));
                m.insert("indent".into(), json!(indent));
                m.insert("yaml".into(), json!(show_bytes(&case.yaml)));
                m.insert("yaml_output".into(), json!(show_bytes(&y.stdout)));
            }
            Err(f)
        }
    }
}

/// The oracle plus attribution of a failure to the open findings whose trigger predicate
/// can be evaluated on the case itself:
/// * fails at `-I 0` and passes unchanged at `-I 2` → the zero-indentation finding;
/// * a string differs by a spliced comment / one lost trailing line break and the input
///   has a block scalar header carrying a comment → the header-comment finding;
/// * a string differs by multiplied leading line breaks and the input has a folded block
///   scalar → the folded-leading-blank-line finding;
/// * a string ending in two or more line breaks comes back with one more and the input has
///   a folded block scalar → the folded-keep finding.
pub fn check_case(case: &Case, st: &mut Stats) -> Result<Outcome, Fail> {
    let f = match check_once(case, case.indent, st) {
        Err(f) => f,
        ok => return ok,
    };
    if f.sig.starts_with("C15/crash") {
        return Err(f);
    }
    let rename = |f: &Fail, sig: &str, why: &str| -> Fail {
        let mut d = f.detail.clone();
        if let Some(m) = d.as_object_mut() {
            m.insert("symptom".into(), json!(f.sig));
            m.insert("attributed_because".into(), json!(why));
        }
        Fail::new(sig, d)
    };
    if case.indent == 0 {
        if let Ok(o) = check_once(case, 2, st) {
            if o != Outcome::Discarded {
                return Err(rename(&f, SIG_I0, "the same case passes at -I 2"));
            }
        }
    }
    let sym = f.sig.as_str();
    if (sym == "C15/reread-differs/str:comment-text-became-content" || sym == "C15/reread-differs/str:one-trailing-line-break-lost") && has_block_scalar_and_comment(&case.yaml) {
        return Err(rename(&f, SIG_HEADER_COMMENT, "input has a block scalar and a comment"));
    }
    if sym == "C15/reread-differs/str:leading-line-breaks-multiplied" && has_folded_header(&case.yaml) {
        return Err(rename(&f, SIG_FOLDED_LEAD, "input has a folded block scalar"));
    }
    if sym == "C15/reread-differs/str:leading-and-trailing-line-breaks-grown" && has_folded_header(&case.yaml) {
        // both folded-scalar findings in one value: counted with the leading-run finding
        return Err(rename(&f, SIG_FOLDED_LEAD, "input has a folded block scalar; the value starts with a line break and ends in two or more"));
    }
    if sym == "C15/reread-differs/str:one-trailing-line-break-added" && has_folded_header(&case.yaml) {
        return Err(rename(&f, SIG_FOLDED_KEEP, "input has a folded block scalar; the value ends in two or more line breaks"));
    }
    Err(f)
}

// ---------------------------------------------------------------- generation

/// Shapes of C15's own open findings that the main search does not generate
/// (derived from known_findings.json; a finding that becomes `fixed` is generated again).
#[derive(Clone, Copy, Default)]
struct Avoid {
    /// `-I 0` together with a write program
    i0_writes: bool,
    /// strings the DOM emitter fails to quote: write programs get the simple palette
    /// (documents and literals); `quoting-matrix` covers the palette one string at a time
    dom_quoting: bool,
    /// a comment on a block scalar's header line
    header_comment: bool,
    /// a folded block scalar whose value starts with a line break
    folded_leading_blank: bool,
    /// a folded block scalar whose value ends in two or more line breaks (keep chomping)
    folded_keep: bool,
    /// a write program on a document with an anchor inside an anchored collection
    nested_anchor_writes: bool,
}

fn doc_opts(simple: bool) -> YOpts {
    let mut o = YOpts::full();
    o.max_docs = 2;
    o.max_depth = 6;
    o.max_nodes = 28;
    o.deep_spine_16 = 0;
    if simple {
        o.strings = YStrings::Simple;
    }
    // trigger shapes of the open *loader* findings (C14): both runs would hit them alike,
    // but the emitter echoes source presentation, so keep them out of C15's input space
    o.avoid = gy::YAvoid {
        empty_value_before_col0_quoted_key: true,
        comment_after_root_anchor: true,
        quote_inside_flow_plain: true,
        tab_after_closing_quote: true,
        nextline_plain_continuation_not_deeper: true,
        literal_hash_first_then_indented: true,
        root_block_scalar_reread: true,
        ..gy::YAvoid::none()
    };
    o
}

/// (block scalar header with a comment, folded scalar starting with a line break, folded
/// scalar ending in two or more line breaks) — exact, from the span table
fn own_shapes(r: &gy::RenderedYaml) -> (bool, bool, bool) {
    let mut header_comment = false;
    let mut folded_lead = false;
    let mut folded_keep = false;
    for sp in &r.spans {
        if !matches!(sp.style, gy::YStyle::Literal | gy::YStyle::Folded) {
            continue;
        }
        // a comment on the header line, or on the line of any enclosing collection whose
        // rendering ends with this scalar (`- &a # c` above a nested block scalar), is
        // re-emitted after the scalar's last line: any comment next to a block scalar counts
        if r.stats.has_comment() {
            header_comment = true;
        }
        if sp.style == gy::YStyle::Folded {
            if let Y::Str(s) = &sp.value {
                if s.starts_with('\n') {
                    folded_lead = true;
                }
                if s.ends_with("\n\n") {
                    folded_keep = true;
                }
            }
        }
    }
    (header_comment, folded_lead, folded_keep)
}

/// an anchor defined strictly inside an anchored collection (`&A [&b x]`)
fn has_nested_anchor(r: &gy::RenderedYaml) -> bool {
    let outer: Vec<(usize, &Vec<Seg>)> = r.containers.iter().filter(|c| c.anchor.is_some()).map(|c| (c.doc, &c.path)).collect();
    let inner = r
        .spans
        .iter()
        .filter(|s| s.anchor.is_some())
        .map(|s| (s.doc, &s.path))
        .chain(r.containers.iter().filter(|c| c.anchor.is_some()).map(|c| (c.doc, &c.path)));
    for (d, p) in inner {
        if outer.iter().any(|(od, op)| *od == d && p.len() > op.len() && p.starts_with(op)) {
            return true;
        }
    }
    false
}

/// Documented gap #1350 (docs/compliance/yq/limitations.md "Known gap in this rule"): the
/// streaming path prints an alias verbatim even when the selected sub-tree does not
/// contain its anchor (`yq .b` on `a: &x 1` / `b: *x` prints `*x`). Does navigating to
/// `path` select a sub-tree with such an alias in some document of the stream?
fn nav_leaves_anchor_behind(r: &gy::RenderedYaml, path: &[Seg]) -> bool {
    for sp in r.spans.iter().filter(|s| s.alias.is_some() && s.role == gy::YRole::Value && s.path.starts_with(path)) {
        if sp.path == path {
            return true; // the result is the alias itself
        }
        let name = sp.alias.as_deref();
        // the anchor has to be printed too: strictly below the selected node (an anchor on
        // the selected node itself is not always printed)
        let inside = r.spans.iter().any(|a| a.doc == sp.doc && a.anchor.as_deref() == name && a.path.starts_with(path) && a.path.len() > path.len())
            || r.containers.iter().any(|c| c.doc == sp.doc && c.anchor.as_deref() == name && c.path.starts_with(path) && c.path.len() > path.len());
        if !inside {
            return true;
        }
    }
    false
}

struct Generated {
    case: Case,
    stream: Vec<Y>,
    rendered: gy::RenderedYaml,
    prog: WriteProg,
    simple: bool,
}

fn gen_case(u: &mut Src, av: Avoid) -> Generated {
    let want_write = u.ratio(3, 4);
    let simple = if want_write && av.dom_quoting { true } else { u.ratio(1, 8) };
    let mut o = doc_opts(simple);
    let stream = gy::gen_stream(u, &o);
    let mut rendered = gy::render(&stream, u, &o);
    for _ in 0..3 {
        let (hc, fl, fk) = own_shapes(&rendered);
        if av.header_comment && hc {
            o.comments = false;
        } else if (av.folded_leading_blank && fl) || (av.folded_keep && fk) {
            o.block_scalars = false;
        } else if av.nested_anchor_writes && want_write && has_nested_anchor(&rendered) {
            o.anchors = false;
        } else {
            break;
        }
        rendered = gy::render(&stream, u, &o);
    }
    let hints = yqprog::hints_of(&rendered, 0);
    let mode = if want_write { ProgMode::WriteOnly } else { ProgMode::ReadOnly };
    let mut prog = yqprog::gen_write(u, &stream[0], &hints, mode, simple && av.dom_quoting);
    if let Some(p) = &prog.nav_path {
        if nav_leaves_anchor_behind(&rendered, p) {
            // documented gap #1350, not generated: select the whole document instead
            prog = WriteProg { text: ".".into(), tags: vec!["identity", "nav-would-leave-anchor-behind(#1350)"], is_write: false, nav_path: None };
        }
    }
    // exhausted entropy (draw 0) gives the default width; 8 is the rejected value
    let mut indent = match u.below(20) {
        0 | 4..=6 => 2u8,
        1..=3 => 0,
        19 => 8,
        n => (n % 8) as u8,
    };
    if av.i0_writes && indent == 0 && prog.is_write {
        indent = 2 + (u.below(6) as u8);
    }
    Generated { case: Case { yaml: rendered.text.clone(), program: prog.text.clone(), indent }, stream, rendered, prog, simple }
}

fn classify(g: &Generated, st: &mut Stats) {
    let s = &g.rendered.stats;
    let special = s.anchors + s.aliases > 0 || s.literal + s.folded > 0 || s.quoted_ambiguous > 0;
    let nt = g.prog.is_write && special && g.case.indent <= 7;
    if nt {
        let mut h = g.case.yaml.clone();
        h.extend_from_slice(g.case.program.as_bytes());
        h.push(g.case.indent);
        st.nontrivial(hash_bytes(&h));
    }
    st.class_if(nt, "nontrivial");
    st.class(&format!("indent-{}", g.case.indent));
    st.class(if g.prog.is_write { "write-program" } else { "read-program" });
    for t in &g.prog.tags {
        st.class(t);
    }
    st.class_if(g.stream.len() > 1, "multi-document");
    st.class_if(s.anchors > 0 && s.aliases > 0, "doc:anchor+alias");
    st.class_if(s.literal + s.folded > 0, "doc:block-scalar");
    st.class_if(s.quoted_ambiguous > 0, "doc:quoted-ambiguous-string");
    st.class_if(s.has_comment(), "doc:comment");
    st.class_if(s.flow_maps + s.flow_seqs > 0, "doc:flow-collection");
    st.class_if(s.line_break != "LF", "doc:crlf-or-cr");
    st.class_if(g.simple, "simple-strings");
    st.size(g.case.yaml.len());
    let cls = g.prog.tags.first().copied().unwrap_or("?");
    st.sample(cls, || json!({"yaml": show_bytes(&g.case.yaml), "program": g.case.program, "indent": g.case.indent}));
}

fn describe(c: &Case) -> Value {
    json!({"yaml_hex": hex(&c.yaml), "yaml": String::from_utf8_lossy(&c.yaml), "program": c.program, "indent": c.indent})
}

/// development aid: VH_C15_SURVEY=<file> appends every failure (signature + case) to <file>
/// and keeps searching without shrinking
fn survey(f: &Fail, case: Value, st: &mut Stats) -> bool {
    if let Ok(path) = std::env::var("VH_C15_SURVEY") {
        use std::io::Write;
        if let Ok(mut fh) = std::fs::OpenOptions::new().create(true).append(true).open(&path) {
            let _ = writeln!(fh, "{}", json!({"sig": f.sig, "detail": f.detail, "case": case}));
        }
        st.class("survey:failure");
        return true;
    }
    false
}

fn run_case(u: &mut Src, st: &mut Stats, av: Avoid) -> Result<(), Fail> {
    let g = gen_case(u, av);
    classify(&g, st);
    st.describe(|| describe(&g.case));
    let outcome = match check_case(&g.case, st) {
        Ok(o) => o,
        Err(f) => {
            if survey(&f, describe(&g.case), st) {
                return Ok(());
            }
            return Err(f);
        }
    };
    match outcome {
        Outcome::Reread { aliases, anchors } => {
            st.class("outcome:reread-compared");
            st.class_if(aliases > 0, "output-has-alias");
            st.class_if(anchors > 0, "output-has-anchor");
            st.class_if(aliases > 0 && g.prog.is_write, "output-has-alias-after-write");
        }
        Outcome::ScalarResult => st.class("outcome:root-scalar-result"),
        Outcome::NoResult => st.class("outcome:no-result"),
        Outcome::BothError => st.class("outcome:both-runs-error"),
        Outcome::UsageError => st.class("outcome:usage-error-I8"),
        Outcome::DocumentedLimit => st.class("outcome:documented-loader-limit(comment-with-colon-on-keyless-line)"),
        Outcome::Discarded => st.discard(),
    }
    Ok(())
}

// ---------------------------------------------------------------- quoting matrix

const MATRIX_DOC: &str = "a: 1\nb: [x, \"y\"]\nc: {p: 1}\n";

/// (context name, role, program for the string literal `s`)
/// A templated family outside G-yaml: block scalars whose first content line starts with
/// spaces (so the source carries an explicit indentation indicator), nested 1..4 levels deep
/// under mappings / sequences, printed back by identity and navigation programs. Explicit
/// indicators are otherwise excluded from G-yaml (documented loader gaps around `M5C3`,
/// spaces-only lines and content-less blocks); this family stays inside what loads
/// correctly: literal or folded, clip/strip chomping, every line has content, later lines
/// less indented than the first.
fn indicator_case(u: &mut Src, st: &mut Stats) -> Result<(), Fail> {
    let depth = u.range(1, 4);
    let step = u.range(2, 4);
    let in_seq = u.bool();
    let header = *u.pick(&["|", "|-", ">", ">-"]);
    let extra = u.range(1, 3); // leading spaces of the first content line
    let mut y = String::new();
    for d in 0..depth - 1 {
        y.push_str(&" ".repeat(d * step));
        y.push_str(&format!("k{}:\n", d));
    }
    let base = (depth - 1) * step;
    let pad = " ".repeat(base);
    // content indentation = parent indentation + n, with explicit indicator n (1..=step)
    let n = u.range(1, step.min(3));
    let content = if in_seq {
        y.push_str(&format!("{}s:\n{}- {}{}\n", pad, pad, header.chars().next().unwrap(), n));
        if header.len() > 1 {
            // chomping indicator after the digit
            let l = y.len();
            y.insert(l - 1, '-');
        }
        base + n
    } else {
        y.push_str(&format!("{}s: {}{}{}\n", pad, &header[..1], n, &header[1..]));
        base + n
    };
    let cpad = " ".repeat(content);
    y.push_str(&format!("{}{}first line\n", cpad, " ".repeat(extra)));
    for i in 0..u.range(0, 2) {
        y.push_str(&format!("{}line {}\n", cpad, i));
    }
    y.push_str(&format!("{}after: 1\n", pad));
    let program = if depth > 1 && u.bool() { ".k0".to_string() } else { ".".to_string() };
    let indent = u.range(2, 7) as u8;
    st.class(&format!("depth-{}", depth));
    st.class(if in_seq { "in-sequence" } else { "in-mapping" });
    st.class(&format!("indent-{}", indent));
    st.nontrivial(hash_str(&format!("{}|{}|{}", y, program, indent)));
    st.sample(&format!("depth-{}", depth), || json!({"yaml": y, "program": program, "indent": indent}));
    let case = Case { yaml: y.into_bytes(), program, indent };
    st.describe(|| describe(&case));
    match check_once(&case, indent, st) {
        Ok(Outcome::Discarded) => {
            st.discard();
            Ok(())
        }
        Ok(_) => Ok(()),
        Err(f) => Err(Fail::new(format!("C15/explicit-indentation-indicator/{}", f.sig.trim_start_matches("C15/")), f.detail)),
    }
}

fn matrix_prog(ctx: usize, s: &str) -> (&'static str, String) {
    let q = crate::oracle::jqeval::jq_string(s);
    match ctx {
        0 => ("value-in-block", format!(".zz = {}", q)),
        1 => ("value-in-block", format!(".zz = [{q}, [{q}], {{\"k\": {q}}}]", q = q)),
        2 => ("value-in-flow", format!(".b += [{}]", q)),
        3 => ("value-in-flow", format!(".c.q = {}", q)),
        4 => ("key-in-block", format!(".[{}] = 1", q)),
        5 => ("key-in-block", format!(".zz = [{{{}: 1, \"b\": 2}}]", q)),
        _ => ("key-in-flow", format!(".c += {{{}: 1}}", q)),
    }
}

/// Trigger predicates of the open DOM-emitter quoting findings: the reason (if any) why the
/// string `s` is known to be written unquoted at `position` although it does not read back.
/// First applicable reason in a fixed order, so the signature is a function of (position, s).
pub fn known_quoting_gap(position: &str, s: &str) -> Option<&'static str> {
    let key = position.starts_with("key");
    let flow = position.ends_with("flow");
    if s.starts_with(' ') {
        return Some("leading-space");
    }
    if key && s.contains('\t') {
        return Some("tab");
    }
    if !key && (matches!(str_class(s, false), "hex-int" | "octal-int") || matches!(s, "+.inf" | "+.Inf" | "+.INF")) {
        return Some("non-decimal-number");
    }
    if key && (s.starts_with('|') || s.starts_with('>')) {
        return Some("block-scalar-indicator-start");
    }
    if flow && s.contains([',', ']', '}']) {
        return Some("flow-terminator");
    }
    None
}

/// One string through one position of the DOM emitter; a failure is attributed to
/// (position, known quoting gap of the string) whatever its symptom; a failing string
/// without a known gap keeps a signature of its own (`unexplained:<class>`).
fn matrix_case(u: &mut Src, st: &mut Stats) -> Result<(), Fail> {
    let o = YOpts::full();
    let ctx = u.below(7);
    let mut s = if ctx >= 4 && u.bool() { gy::gen_key(u, &o) } else { gy::gen_string(u, &o) };
    if s == "<<" {
        // a key spelled `<<` is a merge key even when quoted (documented, test-pinned)
        s = "<<<".into();
    }
    let (ctx_name, program) = matrix_prog(ctx, &s);
    let class = str_class(&s, false);
    st.class(ctx_name);
    st.class(&format!("class:{}", class));
    if let Some(g) = known_quoting_gap(ctx_name, &s) {
        st.class(&format!("known-gap:{}/{}", ctx_name, g));
    }
    st.nontrivial(hash_str(&format!("{}|{}", ctx, s)));
    st.sample(class, || json!({"string": s, "position": ctx_name, "program": program}));
    let case = Case { yaml: MATRIX_DOC.as_bytes().to_vec(), program, indent: 2 };
    st.describe(|| describe(&case));
    match check_once(&case, 2, st) {
        Ok(Outcome::Discarded) => {
            st.discard();
            Ok(())
        }
        Ok(_) => Ok(()),
        Err(f) if f.sig.starts_with("C15/crash") => Err(f),
        Err(f) => {
            let mut d = f.detail.clone();
            if let Some(m) = d.as_object_mut() {
                m.insert("symptom".into(), json!(f.sig));
                m.insert("string".into(), json!(s));
            }
            let reason = match known_quoting_gap(ctx_name, &s) {
                Some(g) => g.to_string(),
                None => format!("unexplained:{}", class),
            };
            let f = Fail::new(format!("C15/dom-quoting/{}/{}", ctx_name, reason), d);
            if survey(&f, describe(&case), st) {
                return Ok(());
            }
            Err(f)
        }
    }
}

fn replay_input(v: &Value) -> Option<Fail> {
    let inp = &v["input"];
    let yaml: Vec<u8> = match (inp["yaml"].as_str(), inp["yaml_hex"].as_str()) {
        (_, Some(h)) => unhex(h),
        (Some(s), None) => s.as_bytes().to_vec(),
        _ => return Some(Fail::new("C15/replay/malformed", json!({"why": "no yaml"}))),
    };
    let program = match inp["program"].as_str() {
        Some(p) => p.to_string(),
        None => return Some(Fail::new("C15/replay/malformed", json!({"why": "no program"}))),
    };
    let indent = inp["indent"].as_u64().unwrap_or(2) as u8;
    let case = Case { yaml, program, indent };
    let mut st = Stats::default();
    let r = catch(|| check_case(&case, &mut st));
    match r {
        Ok(Ok(_)) => None,
        Ok(Err(f)) => {
            // a quoting-matrix replay names its (position, class) signature itself
            match (v["subcheck"].as_str(), inp["matrix_signature"].as_str()) {
                (Some("quoting-matrix"), Some(sig)) if !f.sig.starts_with("C15/crash") => Some(Fail::new(sig, f.detail)),
                _ => Some(f),
            }
        }
        Err((loc, msg)) => Some(Fail::new(format!("panic@{}", panic_sig(&loc)), json!({"panic": msg, "location": loc}))),
    }
}

pub fn run(cx: &mut Ctx) {
    cx.assume("the `succinctly` binary at $VH_CLI is built from /repo's working tree (run.sh rebuilds it); the library linked into the harness is the same tree");
    cx.assume("O-jsonval (harness JSON parser) reads the CLI's JSON output; numbers compare as doubles (documents and programs are integer-preserving, so no float spelling is involved)");
    cx.assume("the re-read uses the repository's own loader (that is what the statement says: 'loads back'); its agreement with the YAML specification is C14's subject");
    cx.assume("documented and therefore not generated: `--sort-keys` and navigation into a sub-tree whose aliases point outside it (streaming-path alias gap #1350, docs/compliance/yq/limitations.md), keys spelled `<<` (merge keys), root scalar results (printed unwrapped)");
    cx.assume("G-yaml only emits documents the repository documents as supported; shapes of the open loader findings (C14) are not generated");
    if !cli::cli_available() {
        cx.infra(format!("CLI binary not found at {}", cli::cli_path()));
        return;
    }
    for (name, v) in cx.replays.clone() {
        if v["kind"] == "input" {
            let r = replay_input(&v);
            cx.replay_outcome(&name, r);
        }
    }
    let av = Avoid {
        i0_writes: cx.is_known(SIG_I0),
        dom_quoting: cx.known.iter().any(|k| k.status == "known" && k.signature.starts_with("C15/dom-quoting/")),
        header_comment: cx.is_known(SIG_HEADER_COMMENT),
        folded_leading_blank: cx.is_known(SIG_FOLDED_LEAD),
        folded_keep: cx.is_known(SIG_FOLDED_KEEP),
        nested_anchor_writes: cx.is_known(SIG_NESTED_ANCHOR),
    };
    let mut avoided = vec![];
    if av.i0_writes {
        avoided.push("`-I 0` with a write program");
    }
    if av.dom_quoting {
        avoided.push("hostile strings through the DOM emitter (write programs use the simple string palette; `quoting-matrix` covers the full palette)");
    }
    if av.header_comment {
        avoided.push("a comment on a block scalar header line");
    }
    if av.folded_leading_blank {
        avoided.push("a folded block scalar starting with a line break");
    }
    if av.folded_keep {
        avoided.push("a folded block scalar ending in two or more line breaks");
    }
    if av.nested_anchor_writes {
        avoided.push("a write program on a document with an anchor inside an anchored collection");
    }
    if !avoided.is_empty() {
        cx.note(format!("open findings: `reread` does not generate {}; `open-finding-shapes` does", avoided.join("; ")));
    }
    cx.check("reread", RULE, Budget { quick: 3_000, thorough: 150_000, max_len: 3000 }, |u, st| run_case(u, st, av));
    cx.check(
        "explicit-indentation-indicator",
        "templated documents: a literal/folded block scalar whose first content line starts with spaces (explicit indentation indicator in the source), nested 1..4 levels under mappings/sequences, printed by identity/navigation at -I 2..7; same re-read oracle",
        Budget { quick: 500, thorough: 20_000, max_len: 64 },
        indicator_case,
    );
    for cl in [
        "nontrivial", "write-program", "read-program", "assign", "update", "add-assign", "delete", "merge-literal", "merge-assign", "alt-assign", "pipe",
        "identity", "navigate", "path:anchor", "path:alias", "path:through-alias", "path:block-scalar-parent", "path:new-key", "path:append",
        "path:missing", "doc:anchor+alias", "doc:block-scalar", "doc:quoted-ambiguous-string", "doc:comment", "outcome:reread-compared",
        "output-has-alias", "output-has-anchor", "output-has-alias-after-write", "outcome:usage-error-I8", "indent-1", "indent-3", "indent-7", "multi-document",
    ] {
        cx.require_class("reread", cl, 5);
    }
    cx.check(
        "quoting-matrix",
        "one string of the G-yaml palette (ambiguous-looking, indicators, white space, controls, non-ASCII) written by a program into one position of a fixed document (block value, value inside flow, block key, key inside flow); same oracle; a failure is attributed to (position, class of the string)",
        Budget { quick: 1_200, thorough: 40_000, max_len: 400 },
        matrix_case,
    );
    for cl in ["value-in-block", "value-in-flow", "key-in-block", "key-in-flow"] {
        cx.require_class("quoting-matrix", cl, 50);
    }
    for cl in ["class:number-like", "class:null-bool-word", "class:line-break", "class:indicator-start", "class:empty", "class:other"] {
        cx.require_class("quoting-matrix", cl, 5);
    }
    // everything un-avoided whose failures the oracle can attribute by itself
    let open = Avoid { dom_quoting: av.dom_quoting, ..Avoid::default() };
    cx.check(
        "open-finding-shapes",
        "the `reread` search with the shapes of C15's open findings generated on purpose (`-I 0` with writes, comments on block scalar headers, folded scalars starting with a line break); failures with a listed signature are counted, others are violations",
        Budget { quick: 600, thorough: 20_000, max_len: 3000 },
        |u, st| run_case(u, st, open),
    );
    let t = TIMEOUTS.load(Ordering::Relaxed);
    if t > 0 {
        cx.note(format!("{} CLI runs hit the 20 s watchdog twice and were discarded (not violations)", t));
    }
    cli::cleanup();
}
