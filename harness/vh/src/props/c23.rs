//! C23 — the library evaluator (`jq::eval`) and the generic evaluator used by the CLI
//! (`jq::eval_generic::eval_with_cursor`) agree on every program (DESIGN §4 C23).
//!
//! One parse (`jq::parse`), two evaluations on `JsonIndex::build(text).root(text)`; compared are the
//! output sequences (as values: O-jsonval reading of `OwnedValue::to_json`, numbers as doubles) and
//! the way the stream ends (normal / error message + payload / break label / halt code).
//! A panic in either evaluator is C30's business: counted and skipped here.
//!
//! Development aids (never set by run.sh): `VH_C23_PROBE=<file>` (lines `filter<TAB>json`) prints
//! both outcomes; `VH_C23_COLLECT=<file>` appends every divergence instead of failing.
use crate::engine::*;
use crate::gen::jqprog::{self, Cfg, Profile, E};
use crate::gen::json::{self as gjson, GenOpts, KeyPalette, StrPalette, J};
use crate::isolate::IsoOpts;
use crate::oracle::jsonval;
use serde_json::{json, Value};
use succinctly::jq::eval_generic::{self, GenericResult};
use succinctly::jq::{self, Control, EvalError, Expr, JqSemantics, QueryResult};
use succinctly::json::JsonIndex;

pub const RULE: &str = "G-jqprog *full* profile (typed grammar generator: paths drawn from the input, pipe/comma, construction, arithmetic, comparison, and/or/not, //, if/elif, try/catch, ?, reduce/foreach, label/break, as-patterns incl. ?//, def with filter/value params, assignment operators, string interpolation, ~200 builtin rows) depth <= 4 x G-json inputs (duplicate keys, edge numbers, empty containers, nulls, random whitespace/escapes). parse once; jq::eval::<_, JqSemantics> vs eval_generic::eval_with_cursor; outputs compared as values, stream end compared exactly. Non-trivial: program with >= 3 AST nodes of >= 2 kinds that yields >= 1 output or an error in at least one evaluator; distinct by hash(program text, input text).";

// ---------------------------------------------------------------- outcomes (shared with C30)

#[derive(Clone, Debug, PartialEq)]
pub enum End {
    Normal,
    Error { msg: String, payload: Option<String> },
    Break(String),
    Halt(i32),
}

impl End {
    pub fn kind(&self) -> &'static str {
        match self {
            End::Normal => "normal",
            End::Error { .. } => "error",
            End::Break(_) => "break",
            End::Halt(_) => "halt",
        }
    }
}

#[derive(Clone, Debug)]
pub struct Outcome {
    pub outs: Vec<String>,
    pub end: End,
}

impl Outcome {
    pub fn to_value(&self) -> Value {
        let outs: Vec<&String> = self.outs.iter().take(12).collect();
        json!({"outputs": outs, "n_outputs": self.outs.len(), "end": format!("{:?}", self.end)})
    }
}

fn end_of_error(e: &EvalError) -> End {
    End::Error { msg: e.message.clone(), payload: e.value.as_ref().map(|v| v.to_json()) }
}

fn end_of_control(c: &Control) -> End {
    match c {
        Control::Error(e) => end_of_error(e),
        Control::Break(l) => End::Break(l.clone()),
        Control::Halt(c) => End::Halt(*c),
    }
}

pub fn outcome_full(r: QueryResult<'_, Vec<u64>>) -> Outcome {
    let end = match &r {
        QueryResult::Error(e) => end_of_error(e),
        QueryResult::Break(l) => End::Break(l.clone()),
        QueryResult::Halt(c) => End::Halt(*c),
        QueryResult::Partial(_, c) => end_of_control(c),
        _ => End::Normal,
    };
    let outs = r.collect_owned().iter().map(|v| v.to_json()).collect();
    Outcome { outs, end }
}

pub fn outcome_generic<V: succinctly::jq::document::DocumentValue>(r: GenericResult<V>) -> Outcome {
    match r {
        GenericResult::Error(e) => Outcome { outs: vec![], end: end_of_error(&e) },
        GenericResult::Break(l) => Outcome { outs: vec![], end: End::Break(l) },
        GenericResult::Halt(c) => Outcome { outs: vec![], end: End::Halt(c) },
        GenericResult::Partial(vs, c) => Outcome { outs: vs.iter().map(|v| v.to_json()).collect(), end: end_of_control(&c) },
        GenericResult::LazySeq(seq) => match seq.materialize_atomic() {
            Ok(o) => Outcome { outs: vec![o.to_json()], end: End::Normal },
            Err(c) => Outcome { outs: vec![], end: end_of_control(&c) },
        },
        other => Outcome { outs: other.collect_owned().iter().map(|v| v.to_json()).collect(), end: End::Normal },
    }
}

/// Evaluate with the library (full) evaluator; Err = (panic location, message).
pub fn run_full(expr: &Expr, text: &[u8]) -> Result<Outcome, (String, String)> {
    catch(|| {
        let index = JsonIndex::build(text);
        let cursor = index.root(text);
        outcome_full(jq::eval::<Vec<u64>, JqSemantics>(expr, cursor))
    })
}

/// Evaluate with the generic evaluator (the CLI's); Err = (panic location, message).
pub fn run_generic(expr: &Expr, text: &[u8]) -> Result<Outcome, (String, String)> {
    catch(|| {
        let index = JsonIndex::build(text);
        let cursor = index.root(text);
        outcome_generic(eval_generic::eval_with_cursor(expr, cursor))
    })
}

fn same_value_text(a: &str, b: &str) -> bool {
    if a == b {
        return true;
    }
    match (jsonval::parse_one(a.as_bytes()), jsonval::parse_one(b.as_bytes())) {
        (Ok(x), Ok(y)) => gjson::j_eq(&x, &y),
        _ => false,
    }
}

/// None when the two outcomes agree; otherwise the kind of difference.
pub fn diff_kind(f: &Outcome, g: &Outcome) -> Option<String> {
    if f.end.kind() != g.end.kind() {
        return Some(format!("end-{}-vs-{}", f.end.kind(), g.end.kind()));
    }
    if f.outs.len() != g.outs.len() {
        return Some("output-count".into());
    }
    for (a, b) in f.outs.iter().zip(g.outs.iter()) {
        if !same_value_text(a, b) {
            return Some("output-value".into());
        }
    }
    match (&f.end, &g.end) {
        (End::Error { msg: m1, payload: p1 }, End::Error { msg: m2, payload: p2 }) => {
            if m1 != m2 {
                return Some("error-message".into());
            }
            // payload None == the message as a string
            let norm = |p: &Option<String>, m: &String| p.clone().unwrap_or_else(|| serde_json::to_string(m).unwrap_or_default());
            if !same_value_text(&norm(p1, m1), &norm(p2, m2)) {
                return Some("error-payload".into());
            }
            None
        }
        (a, b) if a != b => Some(format!("{}-detail", a.kind())),
        _ => None,
    }
}

/// Both evaluators on one (program, input). Ok(None) = agree; Ok(Some(kind)) = differ; Err = panic.
pub fn compare(expr: &Expr, text: &[u8]) -> Result<(Option<String>, Outcome, Outcome), (String, String, &'static str)> {
    let f = run_full(expr, text).map_err(|(l, m)| (l, m, "full"))?;
    let g = run_generic(expr, text).map_err(|(l, m)| (l, m, "generic"))?;
    Ok((diff_kind(&f, &g), f, g))
}

// ---------------------------------------------------------------- generation

pub fn gen_doc(u: &mut Src) -> J {
    let o = GenOpts {
        max_depth: u.range(0, 5),
        max_nodes: u.range(1, 40),
        dup_keys: u.ratio(1, 3),
        strings: *u.pick(&[StrPalette::AsciiPlain, StrPalette::Ascii, StrPalette::Full]),
        keys: *u.pick(&[KeyPalette::Ident, KeyPalette::Ident, KeyPalette::Ident, KeyPalette::AsStrings, KeyPalette::Hostile]),
        numbers: *u.pick(&[0u8, 1, 2, 2]),
        max_str_len: 12,
    };
    gjson::gen_value(u, &o)
}

const BORING: &[&str] = &["pipe", "identity", "lit", "path", "step:field", "step:index", "step:iter", "comma", "arrcons"];

/// The culprit of a minimised divergent program: its deepest non-boring construct (ties: the last
/// one in pre-order). `map(reverse)` -> `b:reverse/0`, `.[] | keys` -> `b:keys/0`.
fn sig_features(ast: &E) -> String {
    fn walk(e: &E, depth: usize, best: &mut (usize, String)) {
        let k = e.kind_name();
        if !BORING.contains(&k.as_str()) && depth >= best.0 {
            *best = (depth, k);
        }
        for c in jqprog::children_of(e) {
            walk(c, depth + 1, best);
        }
    }
    let mut best = (0usize, String::new());
    walk(ast, 0, &mut best);
    if best.1.is_empty() {
        let (_, set) = ast.features();
        return set.into_iter().filter(|f| f != "pipe" && f != "identity").take(3).collect::<Vec<_>>().join("+");
    }
    best.1
}

/// AST-level delta debugging: smallest program (by node count) that still diverges on `text`.
fn minimize(ast: &E, text: &[u8]) -> (E, String) {
    let mut best = ast.clone();
    let mut kind = String::new();
    let mut evals = 0;
    'outer: loop {
        for cand in jqprog::shrink_candidates(&best) {
            if evals > 1500 {
                break 'outer;
            }
            let t = jqprog::print(&cand);
            let Ok(Ok(expr)) = catch(|| jq::parse(&t)) else { continue };
            evals += 1;
            if let Ok((Some(k), _, _)) = compare(&expr, text) {
                best = cand;
                kind = k;
                continue 'outer;
            }
        }
        break;
    }
    (best, kind)
}

/// Signature of a divergence. Root-cause grouping: when the divergence exists only because the input
/// has duplicate keys and it is the library evaluator that departs from the collapsed (first
/// position, last value) view, all builtins share one signature.
fn classify(kind: &str, feats: &str, doc: &J, filter: &str, mf: &Outcome, mg: &Outcome) -> String {
    if doc.has_dup_keys() {
        let collapsed = gjson::to_compact(&jsonval::collapse_dups(doc));
        if let Ok(Ok(e)) = catch(|| jq::parse(filter)) {
            if let Ok((None, cf, _)) = compare(&e, collapsed.as_bytes()) {
                if diff_kind(&cf, mg).is_none() {
                    return "C23/dupkeys/full-evaluator-keeps-shadowed-duplicate".to_string();
                } else if diff_kind(&cf, mf).is_none() {
                    return format!("C23/dupkeys/generic-evaluator-departs/{}", feats);
                }
            }
        }
    }
    // the generic evaluator short-circuits `map(f) | first` / `map(f) | .[0]` after the first
    // element, so an error raised by a later element never surfaces (jq and the library
    // evaluator build the whole array first): `[[1],2] | map(.[]) | first` -> 1 vs error
    if filter.contains("map(")
        && (filter.contains("| first") || filter.contains("|first") || filter.contains("| .[0]"))
        && mf.end != End::Normal
        && mg.end == End::Normal
    {
        return "C23/generic-map-then-first-short-circuits-past-error".to_string();
    }
    format!("C23/{}/{}", kind, feats)
}

fn check_case(u: &mut Src, st: &mut Stats, cfg: &Cfg) -> Result<(), Fail> {
    let doc = gen_doc(u);
    let prog = jqprog::gen_program(u, &doc, cfg);
    let ro = gjson::render_opts(u);
    let text = gjson::render(&doc, u, ro).text;
    st.describe(|| json!({"filter": prog.text, "input": String::from_utf8_lossy(&text)}));
    st.size(prog.text.len());
    let expr = match catch(|| jq::parse(&prog.text)) {
        Ok(Ok(e)) => e,
        Ok(Err(_)) => {
            st.class("parse-error");
            st.sample("parse-error", || json!({"filter": prog.text}));
            return Ok(());
        }
        Err(_) => {
            st.class("panic-deferred-to-C30");
            return Ok(());
        }
    };
    st.class("parsed");
    for f in &prog.feats {
        st.class(&format!("feat:{}", f));
    }
    st.class_if(doc.has_dup_keys(), "doc-dup-keys");
    st.evals(2);
    let (d, f, g) = match compare(&expr, &text) {
        Ok(x) => x,
        Err((loc, msg, which)) => {
            st.class("panic-deferred-to-C30");
            if let Ok(path) = std::env::var("VH_C23_COLLECT") {
                use std::io::Write;
                if let Ok(mut fh) = std::fs::OpenOptions::new().create(true).append(true).open(path) {
                    let _ = writeln!(fh, "PANIC/{}/{}\t{}", which, msg, json!({"filter": prog.text, "input": String::from_utf8_lossy(&text), "loc": loc}));
                }
            }
            st.sample("panic", || json!({"filter": prog.text, "input": String::from_utf8_lossy(&text), "which": which, "loc": loc, "msg": msg}));
            return Ok(());
        }
    };
    st.class(&format!("end:{}", f.end.kind()));
    st.class_if(f.outs.len() > 1, "outputs>1");
    st.class_if(f.outs.is_empty() && f.end == End::Normal, "no-output");
    st.class_if(f.outs != g.outs && d.is_none(), "text-differs-value-equal");
    let nt = prog.nodes >= 3 && prog.kinds >= 2 && (!f.outs.is_empty() || !g.outs.is_empty() || f.end != End::Normal || g.end != End::Normal);
    if nt {
        st.class("nontrivial");
        st.nontrivial(hash_str(&prog.text) ^ hash_bytes(&text).rotate_left(21));
    }
    st.digest(hash_str(&format!("{:?}{:?}", f.outs, f.end)));
    st.sample(f.end.kind(), || json!({"filter": prog.text, "input": String::from_utf8_lossy(&text), "outcome": f.to_value()}));
    let Some(kind0) = d else { return Ok(()) };
    // divergence: minimise the program, derive a narrow signature
    let (min_ast, kind) = minimize(&prog.ast, &text);
    let kind = if kind.is_empty() { kind0 } else { kind };
    let min_text = jqprog::print(&min_ast);
    let (mf, mg) = match catch(|| jq::parse(&min_text)) {
        Ok(Ok(e)) => match compare(&e, &text) {
            Ok((_, a, b)) => (a, b),
            Err(_) => (f.clone(), g.clone()),
        },
        _ => (f.clone(), g.clone()),
    };
    let feats = sig_features(&min_ast);
    let sig = classify(&kind, &feats, &doc, &min_text, &mf, &mg);
    if sig.starts_with("C23/dupkeys/full") {
        st.class(&format!("dupkeys-finding:{}", feats));
    }
    let detail = json!({
        "filter": min_text, "input": String::from_utf8_lossy(&text), "full": mf.to_value(), "generic": mg.to_value(),
        "original_filter": prog.text, "kind": kind,
    });
    if let Ok(path) = std::env::var("VH_C23_COLLECT") {
        use std::io::Write;
        if let Ok(mut fh) = std::fs::OpenOptions::new().create(true).append(true).open(path) {
            let _ = writeln!(fh, "{}\t{}", sig, detail);
        }
        return Ok(());
    }
    Err(Fail::new(sig, detail))
}

// ---------------------------------------------------------------- replays / probe

fn replay_input(v: &Value) -> Option<Fail> {
    let filter = v["input"]["filter"].as_str().unwrap_or(".");
    let input = v["input"]["input"].as_str().unwrap_or("null");
    let feats = v["input"]["sig_features"].as_str().unwrap_or("");
    let expr = match catch(|| jq::parse(filter)) {
        Ok(Ok(e)) => e,
        Ok(Err(e)) => return Some(Fail::new("C23/replay/parse-error", json!({"filter": filter, "error": format!("{:?}", e)}))),
        Err((loc, msg)) => return Some(Fail::new(format!("panic@{}", panic_sig(&loc)), json!({"filter": filter, "panic": msg}))),
    };
    match compare(&expr, input.as_bytes()) {
        Ok((None, _, _)) => None,
        Ok((Some(k), f, g)) => Some(Fail::new(classify(&k, feats, &jsonval::parse_one(input.as_bytes()).unwrap_or(J::Null), filter, &f, &g), json!({"filter": filter, "input": input, "full": f.to_value(), "generic": g.to_value()}))),
        Err((loc, msg, which)) => Some(Fail::new(format!("C23/replay/panic-{}@{}", which, panic_sig(&loc)), json!({"filter": filter, "panic": msg}))),
    }
}

fn probe(path: &str) {
    let txt = std::fs::read_to_string(path).unwrap_or_default();
    for line in txt.lines() {
        let (filter, input) = line.split_once('\t').unwrap_or((line, "null"));
        println!("== {}   <<< {}", filter, input);
        match catch(|| jq::parse(filter)) {
            Ok(Ok(e)) => {
                println!("  full   : {:?}", run_full(&e, input.as_bytes()));
                println!("  generic: {:?}", run_generic(&e, input.as_bytes()));
                if let (Ok(f), Ok(g)) = (run_full(&e, input.as_bytes()), run_generic(&e, input.as_bytes())) {
                    println!("  diff   : {:?}", diff_kind(&f, &g));
                }
            }
            Ok(Err(e)) => println!("  parse error: {:?}", e),
            Err(p) => println!("  parse PANIC: {:?}", p),
        }
    }
}

pub fn full_cfg() -> Cfg {
    let mut cfg = Cfg::new(Profile::Full);
    cfg.max_depth = 4;
    // documented / by-design exclusions (see run()): non-deterministic or process-global state
    cfg.exclude = ["b:now", "b:input", "b:inputs", "b:input_line_number", "b:debug", "b:stderr", "b:localtime", "b:line", "b:column", "b:at_offset", "b:at_position"].iter().map(|s| s.to_string()).collect();
    // builtins / forms the generic evaluator implements natively (everything else falls back into
    // the library evaluator on a re-serialised value): where drift can live
    cfg.favor = ["first", "last", "keys", "keys_unsorted", "length", "map", "paths", "leaf_paths", "reverse", "select", "to_entries", "tonumber", "tostring", "type", "values", "scalars", "iterables", "isnull", "isboolean", "isnumber", "isstring", "isarray", "isobject", "empty", "pivot", "map_values", "has", "tojson", "@json", "@text", "@csv", "@base64", "@html", "@uri", "@sh", "@tsv"].iter().map(|s| s.to_string()).collect();
    cfg
}

pub fn run(cx: &mut Ctx) {
    if let Ok(p) = std::env::var("VH_C23_PROBE") {
        if !cx.is_child() {
            probe(&p);
        }
        return;
    }
    cx.assume("both evaluators are called in-process on the same parsed Expr and the same JsonIndex cursor; outputs are rendered with OwnedValue::to_json and read back by the harness JSON value parser (numbers compared as doubles, object member order significant)");
    cx.assume("excluded by construction: `now` (clock), `input`/`inputs`/`input_line_number` (process-global input queue the library entry points do not seed), `debug`/`stderr` (side channel only), `localtime` (TZ database); a panic in either evaluator is counted and left to C30");
    cx.assume("documented evaluator differences excluded from the generator: `line`/`column` are always 0 in the library evaluator and `at_offset`/`at_position` need the generic evaluator's cursor context (doc comment of builtin_line in src/jq/eval.rs, doc comment of eval_generic::eval_with_cursor)");
    for (name, v) in cx.replays.clone() {
        if v["kind"] == "input" {
            let r = replay_input(&v);
            cx.replay_outcome(&name, r);
        }
    }
    let cfg = full_cfg();
    cx.check_isolated(
        "full-vs-generic",
        RULE,
        Budget { quick: 60_000, thorough: 4_000_000, max_len: 1600 },
        IsoOpts { watchdog_s: 20, rlimit_as_gib: 6, chunk: 1000, hang_is_inconclusive: false },
        |u, st| check_case(u, st, &cfg),
    );
    for cl in ["nontrivial", "end:error", "end:normal", "outputs>1", "doc-dup-keys", "feat:reduce", "feat:foreach", "feat:label", "feat:trycatch", "feat:if", "feat:def", "feat:as", "feat:aspat", "feat:objcons", "feat:interp", "feat:assign:|=", "feat:assign:=", "feat:opt", "feat:op://"] {
        cx.require_class("full-vs-generic", cl, 20);
    }
}
