//! C12 — line/column mapping exact and history-independent (DESIGN §4 C12).
//!
//! One index instance (`LineIndex`, or the lazily built one inside `JsonIndex`
//! / `YamlIndex`) answers a whole generated history of queries; every answer is
//! compared with a stateless model (naive scan of the text into a plain
//! `Vec<usize>` of line starts). The index keeps a one-entry cache of the last
//! `to_line_column` lookup, so any dependence on earlier queries shows up as a
//! disagreement with the model.
use crate::engine::*;
use serde_json::{json, Value};
use succinctly::json::JsonIndex;
use succinctly::text::LineIndex;
use succinctly::yaml::YamlIndex;

pub const RULE: &str = "texts over {a, space, LF, CR}: 0..=800 lines (thorough 20 000) of length 0..=12 (sometimes up to 300), break per line LF/CRLF/CR by style (one kind, or mixed), optional final break, leading breaks, raw CR/LF soups; line counts biased to 0,1,15..18,255..258,512. History (20..=90 queries) on ONE index instance: to_line_column at offsets chosen relative to the previous to_line_column query's line (same offset again, same line, +1..15 lines, +15/+16/+17, +18..200, backward, random, len-1/len/len+k, u32::MAX-1/u32::MAX/u32::MAX+1, usize::MAX), to_offset(line,col) incl. 0, last column, one past, past-the-end lines, huge values, round trips, line_start, line_count. Oracle: naive scan (a break at the very end starts no line). Routes: LineIndex, JsonIndex::{to_line_column,to_offset} on `[`+whitespace-form+`]`, YamlIndex on the comment-line form. Non-trivial: >=20 lines with both CRLF and lone CR and a history containing a 1..=15-line forward step, a >=17-line forward step and a backward step (relative to the previous to_line_column query); distinct by hash(text, queries).";

// ---------------------------------------------------------------- model

/// Line starts by the obvious forward scan: LF, lone CR and CRLF are each one
/// break; a break is followed by a new line only if some text follows it.
pub fn model_starts(text: &[u8]) -> Vec<usize> {
    let mut starts = vec![0usize];
    let n = text.len();
    let mut i = 0usize;
    while i < n {
        let after = match text[i] {
            b'\n' => i + 1,
            b'\r' => {
                if i + 1 < n && text[i + 1] == b'\n' {
                    i + 2
                } else {
                    i + 1
                }
            }
            _ => {
                i += 1;
                continue;
            }
        };
        if after < n {
            starts.push(after);
        }
        i = after;
    }
    starts
}

/// 0-based line of `off` = (number of starts <= off) - 1, by plain binary search on the Vec.
fn model_line_of(starts: &[usize], off: usize) -> usize {
    let mut lo = 0usize;
    let mut hi = starts.len();
    while lo < hi {
        let mid = lo + (hi - lo) / 2;
        if starts[mid] <= off {
            lo = mid + 1;
        } else {
            hi = mid;
        }
    }
    lo - 1
}

/// None when the (mathematical) column does not fit in usize.
fn model_to_lc(starts: &[usize], off: usize) -> Option<(usize, usize)> {
    let l = model_line_of(starts, off);
    let col = (off - starts[l]).checked_add(1)?;
    Some((l + 1, col))
}

fn model_to_offset(starts: &[usize], text_len: usize, line: usize, col: usize) -> Option<usize> {
    if line == 0 || col == 0 || line > starts.len() {
        return None;
    }
    // offset = start + col - 1 as a mathematical integer
    let off = (starts[line - 1] as u128) + (col as u128) - 1;
    if off < text_len as u128 {
        Some(off as usize)
    } else {
        None
    }
}

// ---------------------------------------------------------------- case

#[derive(Clone, Debug, PartialEq)]
pub enum Query {
    ToLc(usize),
    ToOff(usize, usize),
    /// to_line_column(off) then to_offset of the answer (in-bounds offsets only)
    RoundTrip(usize),
    LineStart(usize),
    LineCount,
}

#[derive(Clone, Copy, Debug, PartialEq)]
pub enum Route {
    Line,
    Json,
    Yaml,
}

pub struct Case {
    pub text: Vec<u8>,
    pub route: Route,
    pub queries: Vec<Query>,
    pub style: &'static str,
    pub sweep: bool,
}

const LENS: [usize; 8] = [0, 1, 2, 3, 5, 8, 12, 0];

fn gen_text(u: &mut Src, max_lines: usize) -> (Vec<u8>, &'static str) {
    let style = u.below(8);
    if style == 7 {
        // raw soup over the alphabet, heavy on breaks
        let n = u.len_biased(600, &[0, 1, 2, 3, 63, 64, 65]);
        let raw = u.bytes(n.div_ceil(4));
        let mut t = Vec::with_capacity(n);
        for i in 0..n {
            let b = (raw[i / 4] >> ((i % 4) * 2)) & 3;
            t.push([b'\n', b'\r', b'a', b' '][b as usize]);
        }
        return (t, "soup");
    }
    let nlines = u.len_biased(max_lines, &[0, 1, 2, 15, 16, 17, 18, 19, 33, 255, 256, 257, 258, 512, 513]);
    let name = ["lf", "crlf", "cr", "mixed", "mixed", "mixed-lf-heavy", "mixed"][style];
    let final_break = u.bool();
    let long_lines = u.ratio(1, 8);
    let mut t = Vec::new();
    // tiles: a block of per-line bytes is drawn, then reused with rotation so
    // that many lines cost little entropy
    let block: Vec<u8> = u.bytes(nlines.min(96));
    let rot = u.below(7) + 1;
    for i in 0..nlines {
        let b = if block.is_empty() { 0 } else { block[i % block.len()].rotate_left(((i / block.len()) * rot) as u32 % 8) };
        let mut len = LENS[(b & 7) as usize];
        if long_lines && b & 0xC0 == 0xC0 {
            len = 13 + (b as usize * 7) % 288;
        }
        for j in 0..len {
            t.push(if (b as usize + j) % 5 == 0 { b' ' } else { b'a' });
        }
        if i + 1 == nlines && !final_break {
            break;
        }
        let k = (b >> 3) & 3;
        match style {
            0 => t.push(b'\n'),
            1 => t.extend_from_slice(b"\r\n"),
            2 => t.push(b'\r'),
            5 => match k {
                0 => t.push(b'\r'),
                1 => t.extend_from_slice(b"\r\n"),
                _ => t.push(b'\n'),
            },
            _ => match k {
                0 | 3 => t.push(b'\n'),
                1 => t.extend_from_slice(b"\r\n"),
                _ => t.push(b'\r'),
            },
        }
    }
    (t, name)
}

/// `[` + text with letters turned into spaces + `]`: a valid JSON document (an
/// empty array with whitespace) that has the same break structure.
fn json_form(text: &[u8]) -> Vec<u8> {
    let mut v = Vec::with_capacity(text.len() + 2);
    v.push(b'[');
    v.extend(text.iter().map(|&b| if b == b'a' { b' ' } else { b }));
    v.push(b']');
    v
}

/// Every non-empty line becomes a comment line (`#` + the rest of the line),
/// empty lines stay empty: a valid (empty) YAML stream with the same breaks.
fn yaml_form(text: &[u8]) -> Vec<u8> {
    let mut v = Vec::with_capacity(text.len());
    let mut at_line_start = true;
    for &b in text {
        if b == b'\n' || b == b'\r' {
            v.push(b);
            at_line_start = true;
        } else if at_line_start {
            v.push(b'#');
            at_line_start = false;
        } else {
            v.push(b);
        }
    }
    v
}

struct HistFlags {
    short_fwd: bool,
    long_fwd: bool,
    backward: bool,
    repeat: bool,
    step15: bool,
    step16: bool,
    step17: bool,
    past_end: bool,
    huge: bool,
}

fn offset_in_line(u: &mut Src, starts: &[usize], len: usize, line: usize) -> usize {
    let s = starts[line];
    let e = if line + 1 < starts.len() { starts[line + 1] } else { len.max(s + 1) };
    match u.below(4) {
        0 => s,
        1 => e - 1,
        _ => u.range(s, e - 1),
    }
}

fn gen_history(u: &mut Src, starts: &[usize], len: usize, route: Route, nq: usize) -> (Vec<Query>, HistFlags) {
    let nl = starts.len();
    let mut q = Vec::with_capacity(nq);
    let mut f = HistFlags { short_fwd: false, long_fwd: false, backward: false, repeat: false, step15: false, step16: false, step17: false, past_end: false, huge: false };
    // the line and offset of the previous to_line_column query (what the cache holds)
    let mut last: Option<(usize, usize)> = None;
    let push_lc = |q: &mut Vec<Query>, f: &mut HistFlags, last: &mut Option<(usize, usize)>, off: usize, rt: bool| {
        let line = model_line_of(starts, off);
        if let Some((pl, po)) = *last {
            if off == po {
                f.repeat = true;
            } else if off < po {
                f.backward = true;
            } else {
                let d = line - pl;
                if (1..=15).contains(&d) {
                    f.short_fwd = true;
                }
                if d >= 17 {
                    f.long_fwd = true;
                }
                f.step15 |= d == 15;
                f.step16 |= d == 16;
                f.step17 |= d == 17;
            }
        }
        if off >= len {
            f.past_end = true;
        }
        *last = Some((line, off));
        if rt && off < len {
            q.push(Query::RoundTrip(off));
        } else {
            q.push(Query::ToLc(off));
        }
    };
    while q.len() < nq {
        let cur = last.map(|x| x.0).unwrap_or(0);
        let rt = u.ratio(1, 4);
        match u.below(24) {
            0 | 1 => {
                // exact repeat / same line
                let off = match last {
                    Some((_, po)) if u.bool() => po,
                    _ => offset_in_line(u, starts, len, cur),
                };
                push_lc(&mut q, &mut f, &mut last, off, rt);
            }
            2..=6 => {
                // short forward walk: a run of steps of 1..=15 lines
                let steps = u.range(1, 6);
                let mut c = cur;
                for _ in 0..steps {
                    let d = if u.ratio(1, 4) { 15 } else { u.range(1, 15) };
                    c = (c + d).min(nl - 1);
                    let off = offset_in_line(u, starts, len, c);
                    push_lc(&mut q, &mut f, &mut last, off, false);
                }
            }
            7 | 8 => {
                let d = *u.pick(&[15usize, 16, 16, 17, 17, 18]);
                let c = (cur + d).min(nl - 1);
                let off = if u.bool() { starts[c] } else { offset_in_line(u, starts, len, c) };
                push_lc(&mut q, &mut f, &mut last, off, rt);
            }
            9 => {
                let c = (cur + u.range(18, 200)).min(nl - 1);
                let off = offset_in_line(u, starts, len, c);
                push_lc(&mut q, &mut f, &mut last, off, rt);
            }
            10..=12 => {
                // backward jump (to an earlier line, the same line's earlier byte, or the start)
                let c = match u.below(4) {
                    0 => 0,
                    1 => cur.saturating_sub(1),
                    2 => cur.saturating_sub(u.range(1, 20)),
                    _ => u.range(0, cur),
                };
                let off = offset_in_line(u, starts, len, c);
                push_lc(&mut q, &mut f, &mut last, off, rt);
            }
            13 | 14 => {
                let off = u.range(0, len + 2);
                push_lc(&mut q, &mut f, &mut last, off, rt);
            }
            15 => {
                let off = match u.below(6) {
                    0 => len.saturating_sub(1),
                    1 => len,
                    2 => len + 1,
                    _ => len + u.range(0, 100),
                };
                push_lc(&mut q, &mut f, &mut last, off, false);
            }
            16 => {
                let off = *u.pick(&[u32::MAX as usize - 1, u32::MAX as usize, u32::MAX as usize + 1, u32::MAX as usize + 77, usize::MAX - 1, usize::MAX, 1usize << 40]);
                f.huge = true;
                push_lc(&mut q, &mut f, &mut last, off, false);
            }
            17..=20 => {
                // to_offset: line from {0, valid, last, last+1, far, huge}; column from {0, 1, in line, last, one past, far, huge}
                let line = match u.below(8) {
                    0 => 0,
                    1 => nl,
                    2 => nl + 1,
                    3 => nl + u.range(2, 1000),
                    4 => *u.pick(&[u32::MAX as usize, u32::MAX as usize + 1, usize::MAX]),
                    _ => u.range(1, nl),
                };
                let (s, e) = if (1..=nl).contains(&line) {
                    (starts[line - 1], if line < nl { starts[line] } else { len })
                } else {
                    (0, 10)
                };
                let width = e.saturating_sub(s);
                let col = match u.below(10) {
                    0 => 0,
                    1 => 1,
                    2 => width,
                    3 => width + 1,
                    4 => width + 2,
                    5 => len.saturating_sub(s) + u.range(0, 3),
                    6 => width + u.range(2, 5000),
                    7 => {
                        f.huge = true;
                        *u.pick(&[u32::MAX as usize, u32::MAX as usize + 1, usize::MAX - 1, usize::MAX, usize::MAX - s, (usize::MAX - s).saturating_add(1), (usize::MAX - s).saturating_add(2)])
                    }
                    _ => u.range(1, width.max(1)),
                };
                q.push(Query::ToOff(line, col));
            }
            21 | 22 if route == Route::Line => {
                let line = match u.below(6) {
                    0 => 0,
                    1 => nl,
                    2 => nl + 1,
                    3 => *u.pick(&[nl + 500, u32::MAX as usize, usize::MAX]),
                    _ => u.range(1, nl),
                };
                q.push(Query::LineStart(line));
            }
            23 if route == Route::Line => q.push(Query::LineCount),
            _ => {
                let c = (cur + 1).min(nl - 1);
                let off = starts[c];
                push_lc(&mut q, &mut f, &mut last, off, rt);
            }
        }
    }
    (q, f)
}

// ---------------------------------------------------------------- system under test

enum Sut {
    Line(LineIndex),
    Json(JsonIndex, Vec<u8>),
    Yaml(YamlIndex, Vec<u8>),
}

impl Sut {
    fn to_lc(&self, off: usize) -> (usize, usize) {
        match self {
            Sut::Line(i) => i.to_line_column(off),
            Sut::Json(i, t) => i.to_line_column(off, t),
            Sut::Yaml(i, t) => i.to_line_column(off, t),
        }
    }
    fn to_off(&self, l: usize, c: usize) -> Option<usize> {
        match self {
            Sut::Line(i) => i.to_offset(l, c),
            Sut::Json(i, t) => i.to_offset(l, c, t),
            Sut::Yaml(i, t) => i.to_offset(l, c, t),
        }
    }
}

fn qjson(q: &Query) -> Value {
    match q {
        Query::ToLc(o) => json!({"op": "to_line_column", "offset": o}),
        Query::ToOff(l, c) => json!({"op": "to_offset", "line": l, "column": c}),
        Query::RoundTrip(o) => json!({"op": "round_trip", "offset": o}),
        Query::LineStart(l) => json!({"op": "line_start", "line": l}),
        Query::LineCount => json!({"op": "line_count"}),
    }
}

fn route_name(r: Route) -> &'static str {
    match r {
        Route::Line => "LineIndex",
        Route::Json => "JsonIndex",
        Route::Yaml => "YamlIndex",
    }
}

/// Run `queries` against one instance built from `doc` (the text actually indexed).
/// Returns Ok(false) if the route could not be built (YAML parse error).
pub fn run_history(route: Route, doc: &[u8], queries: &[Query], sweep: bool, st: &mut Stats) -> Result<bool, Fail> {
    let starts = model_starts(doc);
    let len = doc.len();
    let sut = match route {
        Route::Line => Sut::Line(LineIndex::build(doc)),
        Route::Json => Sut::Json(JsonIndex::build(doc), doc.to_vec()),
        Route::Yaml => match YamlIndex::build(doc) {
            Ok(i) => Sut::Yaml(i, doc.to_vec()),
            Err(_) => return Ok(false),
        },
    };
    let rn = route_name(route);
    let mut deferred: Option<Fail> = None;
    let ctx = |i: usize, q: &Query| {
        let lo = i.saturating_sub(6);
        json!({"route": rn, "text": show_bytes(doc), "text_len": len, "query_index": i, "query": qjson(q),
               "previous_queries": queries[lo..i].iter().map(qjson).collect::<Vec<_>>()})
    };
    for (i, q) in queries.iter().enumerate() {
        match q {
            Query::ToLc(off) => {
                let Some(exp) = model_to_lc(&starts, *off) else {
                    // column 2^64 is not representable: no answer to compare with
                    st.class("skipped-unrepresentable-column");
                    continue;
                };
                let act = sut.to_lc(*off);
                st.evals(1);
                check_eq!(format!("C12/{}/to_line_column", rn), exp, act, {"case": ctx(i, q)});
            }
            Query::RoundTrip(off) => {
                let exp = model_to_lc(&starts, *off).unwrap();
                let act = sut.to_lc(*off);
                check_eq!(format!("C12/{}/to_line_column", rn), exp, act, {"case": ctx(i, q)});
                let back = sut.to_off(act.0, act.1);
                st.evals(2);
                check_eq!(format!("C12/{}/round-trip", rn), Some(*off), back, {"case": ctx(i, q)});
            }
            Query::ToOff(l, c) => {
                let exp = model_to_offset(&starts, len, *l, *c);
                let overflow_shape = (1..=starts.len()).contains(l) && *c >= 1 && starts[*l - 1].checked_add(*c).is_none();
                st.evals(1);
                if overflow_shape {
                    // start + column does not fit in usize; the documented answer is None
                    st.class("to_offset-start+column-overflows-usize");
                    let act = catch(|| sut.to_off(*l, *c));
                    let ok = matches!(act, Ok(None));
                    if !ok {
                        let shape = match &act {
                            Ok(_) => "wrapped-some",
                            Err(_) => "panic",
                        };
                        // deferred: the rest of the history is still checked (any other
                        // disagreement wins); this failure is returned at the end
                        if deferred.is_none() {
                            deferred = Some(Fail::new(
                                format!("C12/to_offset/start+column-overflows-usize/{}", shape),
                                json!({"case": ctx(i, q), "expected": "None", "actual": format!("{:?}", act)}),
                            ));
                        }
                    }
                } else {
                    let act = sut.to_off(*l, *c);
                    check_eq!(format!("C12/{}/to_offset", rn), exp, act, {"case": ctx(i, q)});
                }
            }
            Query::LineStart(l) => {
                if let Sut::Line(ix) = &sut {
                    let exp = if *l >= 1 { starts.get(*l - 1).copied() } else { None };
                    st.evals(1);
                    check_eq!("C12/LineIndex/line_start", exp, ix.line_start(*l), {"case": ctx(i, q)});
                }
            }
            Query::LineCount => {
                if let Sut::Line(ix) = &sut {
                    st.evals(2);
                    check_eq!("C12/LineIndex/line_count", starts.len(), ix.line_count(), {"case": ctx(i, q)});
                    check_eq!("C12/LineIndex/text_len", len, ix.text_len(), {"case": ctx(i, q)});
                }
            }
        }
    }
    if sweep {
        // every offset, then every offset backwards in strides, on the same (now warm) instance
        let sweep_ctx = |o: usize, dir: &str| json!({"route": rn, "text": show_bytes(doc), "text_len": len, "sweep": dir, "offset": o, "after_queries": queries.len()});
        for o in 0..len + 2 {
            let exp = model_to_lc(&starts, o).unwrap();
            let act = sut.to_lc(o);
            check_eq!(format!("C12/{}/sweep-forward/to_line_column", rn), exp, act, {"case": sweep_ctx(o, "forward")});
            if o < len {
                check_eq!(format!("C12/{}/sweep-forward/round-trip", rn), Some(o), sut.to_off(act.0, act.1), {"case": sweep_ctx(o, "forward")});
            }
        }
        let mut o = len + 1;
        loop {
            let exp = model_to_lc(&starts, o).unwrap();
            check_eq!(format!("C12/{}/sweep-backward/to_line_column", rn), exp, sut.to_lc(o), {"case": sweep_ctx(o, "backward")});
            // interleave a forward probe so the cache alternates
            let p = (o + 37).min(len + 1);
            let expp = model_to_lc(&starts, p).unwrap();
            check_eq!(format!("C12/{}/sweep-backward/to_line_column", rn), expp, sut.to_lc(p), {"case": sweep_ctx(p, "backward-probe")});
            if o < 3 {
                break;
            }
            o -= 3;
        }
        st.evals(2 * (len as u64 + 2) + 2 * (len as u64 / 3 + 1));
    }
    if let Some(f) = deferred {
        return Err(f);
    }
    Ok(true)
}

fn gen_case(u: &mut Src, max_lines: usize) -> (Case, HistFlags) {
    let (text, style) = gen_text(u, max_lines);
    let route = match u.below(8) {
        0 => Route::Json,
        1 => Route::Yaml,
        _ => Route::Line,
    };
    let doc = doc_for(route, &text);
    let starts = model_starts(&doc);
    let nq = u.range(20, 90);
    let (queries, flags) = gen_history(u, &starts, doc.len(), route, nq);
    let sweep = doc.len() <= 3000 && u.ratio(1, 6);
    (Case { text, route, queries, style, sweep }, flags)
}

fn doc_for(route: Route, text: &[u8]) -> Vec<u8> {
    match route {
        Route::Line => text.to_vec(),
        Route::Json => json_form(text),
        Route::Yaml => yaml_form(text),
    }
}

fn has_crlf_and_lone_cr(t: &[u8]) -> (bool, bool, bool) {
    let (mut crlf, mut cr, mut lf) = (false, false, false);
    let mut i = 0;
    while i < t.len() {
        if t[i] == b'\r' {
            if i + 1 < t.len() && t[i + 1] == b'\n' {
                crlf = true;
                i += 2;
                continue;
            }
            cr = true;
        } else if t[i] == b'\n' {
            lf = true;
        }
        i += 1;
    }
    (crlf, cr, lf)
}

fn describe(c: &Case) -> Value {
    json!({"route": route_name(c.route), "text_hex": hex(&c.text), "text": show_bytes(&c.text), "indexed_document": "LineIndex: text; JsonIndex: '[' + text with a->space + ']'; YamlIndex: first byte of each non-empty line -> '#'",
           "queries": c.queries.iter().map(qjson).collect::<Vec<_>>(), "then_full_sweep": c.sweep})
}

/// Structured replay: {"route": "LineIndex"|"JsonIndex"|"YamlIndex", "text": "...", "queries": [{op,..}]}
fn replay_input(v: &Value) -> Option<Fail> {
    let inp = &v["input"];
    let text: Vec<u8> = if let Some(h) = inp["text_hex"].as_str() { unhex(h) } else { inp["text"].as_str().unwrap_or("").as_bytes().to_vec() };
    let route = match inp["route"].as_str().unwrap_or("LineIndex") {
        "JsonIndex" => Route::Json,
        "YamlIndex" => Route::Yaml,
        _ => Route::Line,
    };
    let num = |x: &Value| -> usize {
        x.as_u64().map(|n| n as usize).or_else(|| x.as_str().and_then(|s| s.parse::<usize>().ok())).unwrap_or(0)
    };
    let mut qs = vec![];
    for q in inp["queries"].as_array().cloned().unwrap_or_default() {
        match q["op"].as_str().unwrap_or("") {
            "to_line_column" => qs.push(Query::ToLc(num(&q["offset"]))),
            "round_trip" => qs.push(Query::RoundTrip(num(&q["offset"]))),
            "to_offset" => qs.push(Query::ToOff(num(&q["line"]), num(&q["column"]))),
            "line_start" => qs.push(Query::LineStart(num(&q["line"]))),
            "line_count" => qs.push(Query::LineCount),
            _ => {}
        }
    }
    let doc = doc_for(route, &text);
    let mut st = Stats::default();
    match catch(|| run_history(route, &doc, &qs, inp["then_full_sweep"].as_bool().unwrap_or(false), &mut st)) {
        Ok(Ok(_)) => None,
        Ok(Err(f)) => Some(f),
        Err((loc, msg)) => Some(Fail::new(format!("panic@{}", panic_sig(&loc)), json!({"panic": msg, "location": loc}))),
    }
}

pub fn run(cx: &mut Ctx) {
    cx.assume("reference model: forward byte scan into a Vec<usize> of line starts + binary search on that Vec (harness code)");
    cx.assume("to_line_column(offset) whose column would be 2^64 (offset usize::MAX on a one-line text) has no representable answer and is not compared");
    cx.assume("JsonIndex/YamlIndex routes use trivially valid documents ('[ whitespace ]', comment lines) with the generated break structure; the text passed to every call is the indexed text");
    for (name, v) in cx.replays.clone() {
        if v["kind"] == "input" {
            let r = replay_input(&v);
            cx.replay_outcome(&name, r);
        }
    }
    let max_lines = if cx.tier == Tier::Quick { 800 } else { 20_000 };
    cx.check(
        "history-vs-naive-scan",
        RULE,
        Budget { quick: 1_500_000, thorough: 40_000_000, max_len: 900 },
        |u, st| {
            let (c, f) = gen_case(u, max_lines);
            let doc = doc_for(c.route, &c.text);
            let starts = model_starts(&doc);
            let nl = starts.len();
            let (crlf, cr, lf) = has_crlf_and_lone_cr(&doc);
            let nt = nl >= 20 && crlf && cr && f.short_fwd && f.long_fwd && f.backward;
            if nt {
                let mut h = hash_bytes(&doc);
                for q in &c.queries {
                    h = mix64(h ^ hash_str(&qjson(q).to_string()));
                }
                st.nontrivial(h);
            }
            st.class_if(nt, "nontrivial");
            st.class(&format!("route-{}", route_name(c.route)));
            st.class(&format!("style-{}", c.style));
            st.class_if(doc.is_empty(), "empty-text");
            st.class_if(crlf && cr && lf, "all-three-break-kinds");
            st.class_if(nl >= 20, "lines>=20");
            st.class_if(nl > 256, "lines>256");
            st.class_if(doc.last().map_or(false, |&b| b == b'\n' || b == b'\r'), "trailing-break");
            st.class_if(doc.first().map_or(false, |&b| b == b'\n' || b == b'\r'), "leading-break");
            st.class_if(f.short_fwd, "hist-forward-1..15-lines");
            st.class_if(f.step15, "hist-forward-exactly-15");
            st.class_if(f.step16, "hist-forward-exactly-16");
            st.class_if(f.step17, "hist-forward-exactly-17");
            st.class_if(f.long_fwd, "hist-forward->=17-lines");
            st.class_if(f.backward, "hist-backward");
            st.class_if(f.repeat, "hist-exact-repeat");
            st.class_if(f.past_end, "hist-offset-past-end");
            st.class_if(f.huge, "hist-huge-values");
            st.class_if(c.sweep, "full-sweep-after-history");
            st.size(doc.len());
            let cls = if nt { "nontrivial" } else if c.route != Route::Line { "wrapper-route" } else { "other" };
            st.sample(cls, || json!({"route": route_name(c.route), "style": c.style, "lines": nl, "text_len": doc.len(), "text_head": show_bytes(&doc[..doc.len().min(60)]), "queries": c.queries.len(), "first_queries": c.queries.iter().take(5).map(qjson).collect::<Vec<_>>()}));
            st.describe(|| describe(&c));
            let built = run_history(c.route, &doc, &c.queries, c.sweep, st)?;
            if !built {
                st.class("yaml-build-error");
                st.discard();
            } else if c.route == Route::Yaml {
                st.class("yaml-built");
            }
            Ok(())
        },
    );
    for cl in ["nontrivial", "hist-forward-exactly-15", "hist-forward-exactly-16", "hist-forward-exactly-17", "hist-backward", "hist-exact-repeat", "hist-offset-past-end", "hist-huge-values", "all-three-break-kinds", "lines>256", "route-JsonIndex", "yaml-built", "trailing-break", "leading-break", "empty-text", "full-sweep-after-history"] {
        cx.require_class("history-vs-naive-scan", cl, 20);
    }
}
