//! C17 — YAML position tables under any access order (DESIGN §4 C17).
//!
//! `YamlIndex::from_parts` is given a synthetic BP (flat `10`*n mostly; fully
//! nested and random balanced shapes too) and generated start/end tables; a
//! generated history of the four public lookups is answered by ONE index
//! instance and compared with the plain vectors. Both tables keep a sequential
//! cursor in a `Cell`, so history dependence shows as a disagreement.
use crate::engine::*;
use serde_json::{json, Value};
use std::collections::BTreeMap;
use succinctly::yaml::YamlIndex;

pub const RULE: &str = "tables for n nodes (0..=1500, thorough 60 000; biased to 0,1,63..65,255..257,511..513,1023..1025) over text_len (multiples of 64 and +-1, or free): starts non-decreasing with duplicate runs in [0,text_len] (classes: tail of nodes starting exactly at text_len, all-equal, strictly increasing, dense packing, sparse with >=24 empty 64-bit words between nodes) or non-monotone (dense fallback); ends 0 = none recorded, otherwise (strong mode) within [max(start,1), min start of later nodes] as the parser guarantees, or (weak mode) free in [1,text_len], monotone or not. BP shape flat/nested/random. History of 30..=160 lookups on ONE instance mixing bp_to_text_pos, bp_to_text_end_pos, text_pos_by_open_idx, text_end_pos_by_open_idx: sequential runs, gaps, backward jumps, repeats, random, indices >= n, usize::MAX; then (1 in 4) a full forward and backward sweep. Oracle: the plain vectors: start = Some(starts[i]) (None for i>=n); recorded end = Some(ends[i]); unrecorded end = None or an end recorded for an earlier node (strong mode: also <= starts[i]) and equal to what a pristine clone answers on one sequential pass. Non-trivial: n>=65 and the history has a backward jump and a repeat; distinct by hash(tables, text_len, history).";

#[derive(Clone, Copy, Debug, PartialEq)]
pub enum Op {
    StartBp,
    EndBp,
    StartIdx,
    EndIdx,
}

#[derive(Clone, Copy, Debug, PartialEq)]
pub enum BpShape {
    Flat,
    Nested,
    Random,
}

pub struct Case {
    pub text_len: usize,
    pub starts: Vec<u32>,
    pub ends: Vec<u32>,
    pub strong: bool,
    pub shape: BpShape,
    pub bp_words: Vec<u64>,
    /// BP position of the i-th open
    pub open_pos: Vec<usize>,
    pub hist: Vec<(Op, usize)>,
    pub sweep: bool,
    pub start_class: &'static str,
}

fn gen_bp(u: &mut Src, n: usize, shape: BpShape) -> (Vec<u64>, Vec<usize>) {
    let mut words = vec![0u64; (2 * n).div_ceil(64)];
    let mut open_pos = Vec::with_capacity(n);
    let set = |p: usize, words: &mut Vec<u64>| words[p / 64] |= 1u64 << (p % 64);
    match shape {
        BpShape::Flat => {
            for i in 0..n {
                set(2 * i, &mut words);
                open_pos.push(2 * i);
            }
        }
        BpShape::Nested => {
            for i in 0..n {
                set(i, &mut words);
                open_pos.push(i);
            }
        }
        BpShape::Random => {
            let coins = u.bytes((2 * n).div_ceil(8).min(64));
            let mut opens_left = n;
            let mut excess = 0usize;
            for p in 0..2 * n {
                let coin = if coins.is_empty() { false } else { (coins[(p / 8) % coins.len()] >> (p % 8)) & 1 == 1 };
                let open = opens_left > 0 && (excess == 0 || coin);
                if open {
                    set(p, &mut words);
                    open_pos.push(p);
                    opens_left -= 1;
                    excess += 1;
                } else {
                    excess -= 1;
                }
            }
        }
    }
    (words, open_pos)
}

fn gen_tables(u: &mut Src, max_n: usize) -> (usize, Vec<u32>, Vec<u32>, bool, &'static str) {
    let n = u.len_biased(max_n, &[0, 1, 2, 63, 64, 65, 127, 128, 129, 255, 256, 257, 511, 512, 513, 1023, 1024, 1025]);
    // text length
    let base = match u.below(6) {
        0 => u.range(0, 4),
        1 => u.range(0, 40),
        2 | 3 => u.range(0, 400),
        _ => u.range(0, (n * 12).max(64) / 64 + 8),
    } * 64;
    let text_len = match u.below(8) {
        0 | 1 | 2 => base,
        3 => base + 1,
        4 => base.saturating_sub(1),
        5 => base + 63,
        _ => base + u.range(0, 63),
    };
    let tl = text_len as u32;
    // starts
    let class = u.below(10);
    let mut starts = Vec::with_capacity(n);
    let name;
    match class {
        0 => {
            name = "all-equal";
            let p = *u.pick(&[0u32, tl, tl / 2, tl.saturating_sub(1)]);
            starts.resize(n, p.min(tl));
        }
        1 => {
            name = "strictly-increasing-packed";
            // positions 0,1,2,... as far as the text allows, then pinned at text_len
            for i in 0..n {
                starts.push((i as u32).min(tl));
            }
        }
        2 => {
            name = "sparse";
            // few nodes spread over the whole text: long runs of empty IB words
            let step = (text_len / n.max(1)).max(1) as u32;
            let mut p = u.range(0, step as usize) as u32;
            for _ in 0..n {
                starts.push(p.min(tl));
                p = p.saturating_add(step + u.below(3) as u32);
            }
        }
        _ => {
            name = "runs";
            // duplicate runs (containers share the position of their first child) with irregular gaps
            let avg = ((text_len as f64 / n.max(1) as f64) * 2.0) as usize + 1;
            let pat = u.bytes(n.min(128));
            let mut p = if u.bool() { 0 } else { u.range(0, avg) as u32 };
            for i in 0..n {
                let b = if pat.is_empty() { 0 } else { pat[i % pat.len()].rotate_left((i / pat.len()) as u32 % 8) };
                if b & 3 != 0 {
                    p = p.saturating_add(((b >> 2) as usize % avg.max(1)) as u32 + (b & 1) as u32);
                }
                starts.push(p.min(tl));
            }
        }
    }
    // tail pinned at text_len (nodes that start at EOF: empty values)
    if n > 0 && u.ratio(1, 3) {
        let k = u.range(1, 3.min(n));
        for s in starts.iter_mut().rev().take(k) {
            *s = tl;
        }
    }
    let mut name = name;
    // non-monotone variant: swap / lower a few entries
    if n >= 2 && u.ratio(1, 6) {
        let k = u.range(1, 4);
        for _ in 0..k {
            let i = u.below(n);
            let j = u.below(n);
            starts.swap(i, j);
        }
        if starts.windows(2).any(|w| w[0] > w[1]) {
            name = "non-monotone";
        }
    }
    // ends
    let strong = !u.ratio(1, 4);
    let mut ends = vec![0u32; n];
    let rec_pat = u.bytes(n.min(64));
    let recorded = |i: usize| -> bool {
        if rec_pat.is_empty() {
            return false;
        }
        let b = rec_pat[i % rec_pat.len()].rotate_left((i / rec_pat.len()) as u32 % 8);
        b % 5 >= 2 // ~60% scalars
    };
    if strong {
        // suffix minimum of starts after i (text_len for the last node)
        let mut sufmin = vec![tl; n + 1];
        for i in (0..n).rev() {
            sufmin[i] = sufmin[i + 1].min(starts[i]);
        }
        let tight = u.bool();
        for i in 0..n {
            if !recorded(i) {
                continue;
            }
            let hi = sufmin[i + 1];
            let lo = starts[i].max(1);
            if hi == 0 || lo > hi {
                continue; // no room for a non-empty extent: the parser records none
            }
            ends[i] = if tight || lo == hi {
                hi
            } else {
                match rec_pat[i % rec_pat.len()] & 3 {
                    0 => lo,
                    1 => hi,
                    _ => lo + (rec_pat[(i + 1) % rec_pat.len()] as u32) % (hi - lo + 1),
                }
            };
        }
    } else if tl >= 1 {
        let mono = u.bool();
        let mut p = 1u32;
        for i in 0..n {
            if !recorded(i) {
                continue;
            }
            if mono {
                p = p.saturating_add(u.below(4) as u32 * if u.ratio(1, 8) { 97 } else { 1 }).min(tl);
                ends[i] = p;
            } else {
                ends[i] = u.range(1, text_len) as u32;
            }
        }
        if n > 0 && u.bool() {
            ends[n - 1] = tl;
        }
    }
    (text_len, starts, ends, strong, name)
}

fn gen_history(u: &mut Src, n: usize) -> (Vec<(Op, usize)>, bool, bool) {
    let nq = u.range(30, 160);
    let mut h: Vec<(Op, usize)> = Vec::with_capacity(nq + 8);
    let mut cur = [0usize; 2]; // last index asked of the start table / end table
    let (mut back, mut rep) = (false, false);
    let mut last_idx = [usize::MAX; 2];
    let mut push = |h: &mut Vec<(Op, usize)>, op: Op, i: usize, back: &mut bool, rep: &mut bool| {
        let t = matches!(op, Op::EndBp | Op::EndIdx) as usize;
        if last_idx[t] != usize::MAX {
            if i == last_idx[t] {
                *rep = true;
            } else if i < last_idx[t] {
                *back = true;
            }
        }
        last_idx[t] = i;
        h.push((op, i));
    };
    let pick_op = |u: &mut Src, end: bool| -> Op {
        match (end, u.bool()) {
            (false, false) => Op::StartIdx,
            (false, true) => Op::StartBp,
            (true, false) => Op::EndIdx,
            (true, true) => Op::EndBp,
        }
    };
    while h.len() < nq {
        let end = u.bool();
        let t = end as usize;
        match u.below(12) {
            0..=3 => {
                // sequential run, optionally asking both tables for each node (what value() does)
                let both = u.bool();
                let len = u.range(1, 40);
                let mut i = cur[t];
                for _ in 0..len {
                    let op = pick_op(u, end);
                    push(&mut h, op, i, &mut back, &mut rep);
                    if both {
                        let op2 = pick_op(u, !end);
                        push(&mut h, op2, i, &mut back, &mut rep);
                    }
                    i += 1;
                }
                cur[t] = i;
                if both {
                    cur[1 - t] = i;
                }
            }
            4 | 5 => {
                // forward gap
                let g = if u.ratio(1, 3) { u.range(2, 700) } else { u.range(2, 6) };
                cur[t] = cur[t].saturating_add(g).min(n + 3);
                let op = pick_op(u, end);
                push(&mut h, op, cur[t], &mut back, &mut rep);
                cur[t] += 1;
            }
            6 | 7 => {
                // backward jump
                let i = match u.below(4) {
                    0 => 0,
                    1 => cur[t].saturating_sub(u.range(1, 3)),
                    2 => cur[t].saturating_sub(u.range(1, 300)),
                    _ => u.range(0, cur[t]),
                };
                let op = pick_op(u, end);
                push(&mut h, op, i, &mut back, &mut rep);
                cur[t] = i + 1;
            }
            8 => {
                // repeat the previous index of this table
                let i = cur[t].saturating_sub(1);
                let op = pick_op(u, end);
                let k = u.range(1, 3);
                for _ in 0..k {
                    push(&mut h, op, i, &mut back, &mut rep);
                }
            }
            9 => {
                let i = u.range(0, n + 2);
                let op = pick_op(u, end);
                push(&mut h, op, i, &mut back, &mut rep);
                cur[t] = i + 1;
            }
            10 => {
                // around the end / sample boundaries
                let i = *u.pick(&[n.saturating_sub(1), n, n + 1, 255, 256, 257, 63, 64, 65, 511, 512]);
                let op = pick_op(u, end);
                push(&mut h, op, i, &mut back, &mut rep);
                cur[t] = i.saturating_add(1);
            }
            _ => {
                // far out of range (open-index forms only: a BP position must be < 2^32)
                let i = *u.pick(&[usize::MAX, usize::MAX - 1, 1usize << 40, n + 100_000]);
                let op = if end { Op::EndIdx } else { Op::StartIdx };
                push(&mut h, op, i, &mut back, &mut rep);
            }
        }
    }
    (h, back, rep)
}

fn gen_case(u: &mut Src, max_n: usize) -> (Case, bool, bool) {
    let (text_len, starts, ends, strong, start_class) = gen_tables(u, max_n);
    let n = starts.len();
    let shape = match u.below(8) {
        0 => BpShape::Nested,
        1 => BpShape::Random,
        _ => BpShape::Flat,
    };
    let (bp_words, open_pos) = gen_bp(u, n, shape);
    let (hist, back, rep) = gen_history(u, n);
    let sweep = u.ratio(1, 4);
    (Case { text_len, starts, ends, strong, shape, bp_words, open_pos, hist, sweep, start_class }, back, rep)
}

pub fn build_index(c: &Case) -> YamlIndex {
    let n = c.starts.len();
    let ib_words = c.text_len.div_ceil(64);
    // the index's own IB: one bit per distinct start (what the parser writes); not read by the lookups under test
    let mut ib = vec![0u64; ib_words];
    for &s in &c.starts {
        let s = s as usize;
        if s / 64 < ib.len() {
            ib[s / 64] |= 1u64 << (s % 64);
        }
    }
    YamlIndex::from_parts(
        ib,
        c.text_len,
        c.bp_words.clone(),
        2 * n,
        Vec::new(),
        0,
        c.starts.clone(),
        c.ends.clone(),
        vec![0u64; c.bp_words.len()],
        BTreeMap::new(),
        BTreeMap::new(),
        BTreeMap::new(),
    )
}

fn op_name(op: Op) -> &'static str {
    match op {
        Op::StartBp => "bp_to_text_pos",
        Op::EndBp => "bp_to_text_end_pos",
        Op::StartIdx => "text_pos_by_open_idx",
        Op::EndIdx => "text_end_pos_by_open_idx",
    }
}

fn ask(idx: &YamlIndex, c: &Case, op: Op, i: usize) -> Option<usize> {
    let n = c.starts.len();
    // BP position of node i; one-past-the-end positions for i >= n ("invalid position" -> None)
    let bp = |i: usize| if i < n { c.open_pos[i] } else { 2 * n + (i - n) };
    match op {
        Op::StartBp => idx.bp_to_text_pos(bp(i)),
        Op::EndBp => idx.bp_to_text_end_pos(bp(i)),
        Op::StartIdx => idx.text_pos_by_open_idx(i),
        Op::EndIdx => idx.text_end_pos_by_open_idx(i),
    }
}

pub fn check_case(c: &Case, st: &mut Stats) -> Result<(), Fail> {
    let n = c.starts.len();
    let idx = build_index(c);
    let starts_monotone = c.starts.windows(2).all(|w| w[0] <= w[1]);
    // canonical answers for unrecorded ends: a pristine clone, one sequential pass
    let has_unrecorded = c.ends.iter().any(|&e| e == 0);
    let canon: Vec<Option<usize>> = if has_unrecorded {
        let fresh = idx.clone();
        (0..n).map(|i| fresh.text_end_pos_by_open_idx(i)).collect()
    } else {
        vec![]
    };
    let mut deferred: Option<Fail> = None;
    let tables = || {
        json!({"text_len": c.text_len, "n": n, "bp_shape": format!("{:?}", c.shape), "strong_mode": c.strong,
               "starts": c.starts.iter().take(300).collect::<Vec<_>>(), "ends": c.ends.iter().take(300).collect::<Vec<_>>()})
    };
    let mut one = |op: Op, i: usize, qi: usize, phase: &str, hist: &[(Op, usize)]| -> Result<(), Fail> {
        let act = ask(&idx, c, op, i);
        st.evals(1);
        let lo = qi.saturating_sub(5).min(hist.len());
        let hi = qi.min(hist.len());
        let ctx = || {
            json!({"api": op_name(op), "node": i, "phase": phase, "query_index": qi,
                   "previous_queries": hist[lo..hi].iter().map(|(o, j)| json!([op_name(*o), j])).collect::<Vec<_>>(),
                   "tables": tables()})
        };
        match op {
            Op::StartBp | Op::StartIdx => {
                let exp = c.starts.get(i).map(|&s| s as usize);
                if exp != act {
                    // known-finding shape: compact storage, start == text_len, text_len a multiple of 64, read back as None
                    if starts_monotone && exp == Some(c.text_len) && c.text_len % 64 == 0 && act.is_none() {
                        if deferred.is_none() {
                            deferred = Some(Fail::new(
                                "C17/start-lookup/compact/start==text_len&&text_len%64==0/None",
                                json!({"case": ctx(), "expected": format!("{:?}", exp), "actual": "None"}),
                            ));
                        }
                        return Ok(());
                    }
                    let storage = if starts_monotone { "compact" } else { "dense" };
                    fail!(format!("C17/start-lookup/{}/{}", storage, op_name(op)), {"case": ctx(), "expected": format!("{:?}", exp), "actual": format!("{:?}", act)});
                }
            }
            Op::EndBp | Op::EndIdx => {
                if i >= n {
                    check_eq!(format!("C17/end-lookup/past-the-end/{}", op_name(op)), None::<usize>, act, {"case": ctx()});
                } else if c.ends[i] > 0 {
                    check_eq!(format!("C17/end-lookup/recorded/{}", op_name(op)), Some(c.ends[i] as usize), act, {"case": ctx()});
                } else {
                    if let Some(e) = act {
                        let earlier = c.ends[..i].iter().any(|&x| x > 0 && x as usize == e);
                        if !earlier {
                            fail!(format!("C17/end-lookup/unrecorded/not-an-earlier-end/{}", op_name(op)), {"case": ctx(), "actual": e});
                        }
                        if c.strong && e > c.starts[i] as usize {
                            fail!(format!("C17/end-lookup/unrecorded/inherited-end-after-own-start/{}", op_name(op)), {"case": ctx(), "actual": e, "start": c.starts[i]});
                        }
                    }
                    if act != canon[i] {
                        fail!(format!("C17/end-lookup/unrecorded/history-dependent/{}", op_name(op)), {"case": ctx(), "fresh_sequential_answer": format!("{:?}", canon[i]), "actual": format!("{:?}", act)});
                    }
                }
            }
        }
        Ok(())
    };
    for (qi, &(op, i)) in c.hist.iter().enumerate() {
        one(op, i, qi, "history", &c.hist)?;
    }
    if c.sweep {
        let hl = c.hist.len();
        for i in 0..n + 2 {
            one(Op::StartIdx, i, hl, "sweep-forward", &c.hist)?;
            one(Op::EndIdx, i, hl, "sweep-forward", &c.hist)?;
        }
        for i in (0..n + 1).rev() {
            one(Op::EndBp, i, hl, "sweep-backward", &c.hist)?;
            one(Op::StartBp, i, hl, "sweep-backward", &c.hist)?;
        }
        // strided: every 3rd backwards with a forward probe in between
        let mut i = n;
        while i >= 3 {
            i -= 3;
            one(Op::StartIdx, i, hl, "sweep-stride", &c.hist)?;
            one(Op::StartIdx, i + 2, hl, "sweep-stride", &c.hist)?;
            one(Op::EndIdx, i + 1, hl, "sweep-stride", &c.hist)?;
        }
    }
    drop(one);
    if let Some(f) = deferred {
        return Err(f);
    }
    Ok(())
}

fn describe(c: &Case) -> Value {
    json!({"text_len": c.text_len, "bp_shape": format!("{:?}", c.shape), "bp_words_hex": c.bp_words.iter().take(200).map(|w| format!("{:016x}", w)).collect::<Vec<_>>(),
           "strong_mode": c.strong, "starts": c.starts, "ends": c.ends,
           "history": c.hist.iter().map(|(o, i)| json!([op_name(*o), i])).collect::<Vec<_>>(), "then_sweep": c.sweep,
           "construction": "YamlIndex::from_parts(ib, text_len, bp_words, 2n, [], 0, starts, ends, zeros, {}, {}, {}); node i is the i-th open of the BP"})
}

/// Structured replay: {"text_len":..,"starts":[..],"ends":[..],"history":[[api,node],..]} (flat BP)
fn replay_input(v: &Value) -> Option<Fail> {
    let inp = &v["input"];
    let arr = |k: &str| -> Vec<u32> { inp[k].as_array().map(|a| a.iter().map(|x| x.as_u64().unwrap_or(0) as u32).collect()).unwrap_or_default() };
    let starts = arr("starts");
    let mut ends = arr("ends");
    ends.resize(starts.len(), 0);
    let n = starts.len();
    let mut hist = vec![];
    for q in inp["history"].as_array().cloned().unwrap_or_default() {
        let op = match q[0].as_str().unwrap_or("") {
            "bp_to_text_pos" => Op::StartBp,
            "bp_to_text_end_pos" => Op::EndBp,
            "text_end_pos_by_open_idx" => Op::EndIdx,
            _ => Op::StartIdx,
        };
        hist.push((op, q[1].as_u64().unwrap_or(0) as usize));
    }
    let mut src = Src::new(&[]);
    let (bp_words, open_pos) = gen_bp(&mut src, n, BpShape::Flat);
    let c = Case {
        text_len: inp["text_len"].as_u64().unwrap_or(0) as usize,
        starts,
        ends,
        strong: inp["strong_mode"].as_bool().unwrap_or(true),
        shape: BpShape::Flat,
        bp_words,
        open_pos,
        hist,
        sweep: inp["then_sweep"].as_bool().unwrap_or(false),
        start_class: "replay",
    };
    let mut st = Stats::default();
    match catch(|| check_case(&c, &mut st)) {
        Ok(Ok(())) => None,
        Ok(Err(f)) => Some(f),
        Err((loc, msg)) => Some(Fail::new(format!("panic@{}", panic_sig(&loc)), json!({"panic": msg, "location": loc}))),
    }
}

/// The same shape through the real parser: a document whose last node (an
/// empty mapping value) starts exactly at EOF.
fn replay_yaml_text(v: &Value) -> Option<Fail> {
    let text = v["input"]["yaml"].as_str().unwrap_or("").as_bytes().to_vec();
    let r = catch(|| {
        let idx = match YamlIndex::build(&text) {
            Ok(i) => i,
            Err(e) => return Err(Fail::new("C17/replay/yaml-build-error", json!({"error": format!("{:?}", e)}))),
        };
        let n = idx.bp().total_ones();
        let pos: Vec<Option<usize>> = (0..n).map(|i| idx.text_pos_by_open_idx(i)).collect();
        if let Some(i) = pos.iter().position(|p| p.is_none()) {
            if text.len() % 64 == 0 && i + 1 == n {
                return Err(Fail::new(
                    "C17/start-lookup/compact/start==text_len&&text_len%64==0/None",
                    json!({"yaml": String::from_utf8_lossy(&text), "text_len": text.len(), "positions": format!("{:?}", pos), "note": "every parsed node has a start position; the last node (empty value at EOF) reads back None"}),
                ));
            }
            return Err(Fail::new("C17/replay/parsed-node-without-start", json!({"positions": format!("{:?}", pos)})));
        }
        Ok(())
    });
    match r {
        Ok(Ok(())) => None,
        Ok(Err(f)) => Some(f),
        Err((loc, msg)) => Some(Fail::new(format!("panic@{}", panic_sig(&loc)), json!({"panic": msg, "location": loc}))),
    }
}

pub fn run(cx: &mut Ctx) {
    cx.assume("reference model: the generated Vec<u32> tables themselves (harness code); unrecorded ends additionally compared with one sequential pass over a pristine clone of the same index (history independence)");
    cx.assume("domain: starts and ends within [0, text_len] (what the parser can write); BP positions passed to bp_to_* are open parentheses or positions at/after bp_len");
    for (name, v) in cx.replays.clone() {
        if v["kind"] == "input" {
            let r = if v["input"].get("yaml").is_some() { replay_yaml_text(&v) } else { replay_input(&v) };
            cx.replay_outcome(&name, r);
        }
    }
    let max_n = if cx.tier == Tier::Quick { 1500 } else { 60_000 };
    cx.check(
        "tables-vs-vectors",
        RULE,
        Budget { quick: 1_200_000, thorough: 1_500_000, max_len: 1400 },
        |u, st| {
            let (c, back, rep) = gen_case(u, max_n);
            let n = c.starts.len();
            let mono_s = c.starts.windows(2).all(|w| w[0] <= w[1]);
            let nz: Vec<u32> = c.ends.iter().copied().filter(|&e| e > 0).collect();
            let mono_e = nz.windows(2).all(|w| w[0] <= w[1]);
            let nt = n >= 65 && back && rep;
            if nt {
                let mut h = hash_bytes(&c.starts.iter().flat_map(|x| x.to_le_bytes()).collect::<Vec<u8>>());
                h = mix64(h ^ hash_bytes(&c.ends.iter().flat_map(|x| x.to_le_bytes()).collect::<Vec<u8>>()));
                h = mix64(h ^ c.text_len as u64);
                for (o, i) in &c.hist {
                    h = mix64(h ^ ((*o as u64) << 60) ^ *i as u64);
                }
                st.nontrivial(h);
            }
            st.class_if(nt, "nontrivial");
            st.class(if mono_s { "starts-compact" } else { "starts-dense-fallback" });
            st.class(if mono_e { "ends-compact" } else { "ends-dense-fallback" });
            st.class(if c.strong { "ends-strong-invariant" } else { "ends-free" });
            st.class(&format!("starts-{}", c.start_class));
            st.class(&format!("bp-{:?}", c.shape));
            let at_eof = c.starts.iter().any(|&s| s as usize == c.text_len);
            st.class_if(at_eof, "start==text_len");
            st.class_if(at_eof && c.text_len % 64 == 0, "start==text_len&&text_len%64==0");
            st.class_if(at_eof && c.text_len % 64 != 0, "start==text_len&&text_len%64!=0");
            st.class_if(c.ends.iter().any(|&e| e as usize == c.text_len && e > 0), "end==text_len");
            st.class_if(c.text_len % 64 == 0, "text_len%64==0");
            st.class_if(n >= 65, "n>=65");
            st.class_if(n > 256, "n>256");
            st.class_if(c.starts.windows(2).any(|w| w[1] / 64 >= w[0] / 64 + 24), "gap>=24-empty-words");
            st.class_if(c.ends.iter().any(|&e| e == 0) && nz.len() > 0, "has-unrecorded-ends");
            st.class_if(back, "hist-backward");
            st.class_if(rep, "hist-repeat");
            st.class_if(c.sweep, "full-sweep");
            st.size(n);
            let cls = if !mono_s { "dense" } else if at_eof { "eof" } else { "compact" };
            st.sample(cls, || json!({"n": n, "text_len": c.text_len, "starts_head": c.starts.iter().take(12).collect::<Vec<_>>(), "starts_tail": c.starts.iter().rev().take(4).collect::<Vec<_>>(), "ends_head": c.ends.iter().take(12).collect::<Vec<_>>(), "strong": c.strong, "bp": format!("{:?}", c.shape), "history_head": c.hist.iter().take(8).map(|(o, i)| json!([op_name(*o), i])).collect::<Vec<_>>()}));
            st.describe(|| describe(&c));
            check_case(&c, st)
        },
    );
    for cl in ["nontrivial", "starts-compact", "starts-dense-fallback", "ends-compact", "ends-dense-fallback", "ends-strong-invariant", "ends-free", "start==text_len&&text_len%64==0", "start==text_len&&text_len%64!=0", "end==text_len", "n>256", "gap>=24-empty-words", "has-unrecorded-ends", "bp-Nested", "bp-Random", "full-sweep"] {
        cx.require_class("tables-vs-vectors", cl, 20);
    }
}
