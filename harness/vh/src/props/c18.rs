//! C18 — strict YAML validation never rejects a well-formed document (DESIGN §4 C18).
//!
//! Sub-checks
//! * `generated-accepted` — every G-yaml stream of C14's presentation space (the shapes of
//!   C18's own open findings excluded by construction): `yaml::validate::validate(text)`
//!   must be `Ok`.
//! * `open-finding-shapes` — the same without the exclusion: a rejection must carry a listed
//!   signature (counted by the engine), anything else is a violation.
//! * `arbitrary-positions` — raw bytes, indicator soups and mutations of generated streams
//!   (≤ 4 KiB): the call returns (a panic is a failure), and on `Err` the position satisfies
//!   `offset <= len` and `line`/`column` are the documented 1-indexed line and byte column
//!   of `offset`, counting LF, CR and CRLF as one break each (validate.rs `Position` docs;
//!   src/yaml/line_break.rs). The line/column assertion is skipped where the two
//!   conventions could disagree: an offset between the CR and the LF of a CRLF.
//!
//! A hang cannot be caught in-process; sizes are kept ≤ 4 KiB (the lead adds worker
//! isolation and the CLI layer).
use crate::engine::*;
use crate::gen::yaml::{self as gy, YAvoid, YOpts};
use crate::props::c14;
use serde_json::{json, Value};
use succinctly::yaml::validate::{validate, YamlValidationError, YamlValidationErrorKind};

pub const RULE: &str = "Accept: G-yaml streams as in C14 (every presentation device drawn independently per node); validate() must be Ok. Non-trivial as C14: >=2 collection styles and >=3 scalar styles and a comment; distinct by hash(text). Positions: raw bytes / YAML indicator soups / mutated generated streams up to 4 KiB; on Err offset<=len and (line,column) = naive LF/CR/CRLF position of offset; non-trivial: the validator returned Err (a position was checked).";

fn kind_name(k: &YamlValidationErrorKind) -> String {
    let d = format!("{:?}", k);
    d.split(|c: char| !c.is_alphanumeric()).next().unwrap_or("?").to_string()
}

/// The naive (line, column) of a byte offset: both 1-indexed, column in bytes; LF, CR and
/// CRLF each end a line. None when `offset` sits between the CR and LF of a CRLF.
pub fn naive_line_col(text: &[u8], offset: usize) -> Option<(usize, usize)> {
    if offset > 0 && offset < text.len() && text[offset - 1] == b'\r' && text[offset] == b'\n' {
        return None;
    }
    let mut line = 1;
    let mut start = 0;
    let mut i = 0;
    while i < offset.min(text.len()) {
        match text[i] {
            b'\n' => {
                line += 1;
                start = i + 1;
            }
            b'\r' => {
                if text.get(i + 1) == Some(&b'\n') && i + 1 < offset {
                    i += 1;
                }
                line += 1;
                start = i + 1;
            }
            _ => {}
        }
        i += 1;
    }
    Some((line, offset - start + 1))
}

fn check_position(text: &[u8], e: &YamlValidationError) -> Result<(), Fail> {
    let p = e.position;
    if p.offset > text.len() {
        fail!("C18/position/offset-past-end", {"offset": p.offset, "len": text.len(), "error": e.to_string(), "text": show_bytes(text), "text_hex": hex(text)});
    }
    if let Some((l, c)) = naive_line_col(text, p.offset) {
        if (l, c) != (p.line, p.column) {
            fail!(format!("C18/position/line-column/{}", kind_name(&e.kind)), {"offset": p.offset, "expected": [l, c], "actual": [p.line, p.column], "error": e.to_string(), "text": show_bytes(text), "text_hex": hex(text)});
        }
    }
    Ok(())
}

/// Trigger predicates of the recorded findings (DESIGN §2.6).
fn shape_tag(text: &[u8], e: &YamlValidationError) -> Option<&'static str> {
    let lines = c14::lines_of(text);
    let ind = |l: &[u8]| l.iter().take_while(|&&b| b == b' ').count();
    if e.kind == YamlValidationErrorKind::BadIndentation {
        // (1) compact `- key:` mapping whose first value is a nested (deeper) block
        //     collection; the second key, back at the compact mapping's column, is rejected.
        // error line: the one holding `offset`
        let mut off = 0;
        let mut idx = None;
        let mut pos = 0;
        for (i, l) in lines.iter().enumerate() {
            let end = pos + l.len();
            if e.position.offset >= pos && e.position.offset <= end {
                idx = Some(i);
                off = pos;
                break;
            }
            // skip the break
            pos = end;
            if text.get(pos) == Some(&b'\r') && text.get(pos + 1) == Some(&b'\n') {
                pos += 2;
            } else {
                pos += 1;
            }
        }
        let _ = off;
        if let Some(i) = idx {
            let d = ind(lines[i]);
            // walk back over deeper lines to the line that opened the compact mapping
            let mut j = i;
            let mut saw_deeper = false;
            while j > 0 {
                j -= 1;
                let l = lines[j];
                let t: &[u8] = &l[ind(l).min(l.len())..];
                if t.is_empty() || t.first() == Some(&b'#') {
                    continue;
                }
                if ind(l) > d {
                    saw_deeper = true;
                    continue;
                }
                if ind(l) == d {
                    // an earlier sibling at the same column (a same-indent sequence value in
                    // between un-registers it again): keep walking to the opening line
                    saw_deeper = true;
                    continue;
                }
                // shallower: must be a `- ` chain; the rejected line returns to the column of
                // a nested compact collection: a later dash of the chain or the content
                // after the chain
                let mut c = ind(l);
                let mut cols = vec![];
                while l.get(c) == Some(&b'-') && matches!(l.get(c + 1), Some(b' ')) {
                    c += 1;
                    while l.get(c) == Some(&b' ') {
                        c += 1;
                    }
                    cols.push(c);
                }
                if cols.contains(&d) && saw_deeper {
                    return Some("compact-collection-return-after-deeper");
                }
                break;
            }
        }
    }
    // (3) one of `[ { ' "` after white space / `,` / `[` / `{`, or `|` `>` after white space,
    //     *inside* a block plain scalar taken for the start of a node
    if !matches!(e.kind, YamlValidationErrorKind::TabInIndentation | YamlValidationErrorKind::InvalidUtf8 | YamlValidationErrorKind::NestingTooDeep { .. }) && lines.iter().any(|l| plain_with_opener(l))
    {
        return Some("opener-inside-plain-scalar");
    }
    if matches!(e.kind, YamlValidationErrorKind::UnknownAnchor { .. } | YamlValidationErrorKind::BadIndentation | YamlValidationErrorKind::TrailingContent) {
        // (4) a block scalar opened on a compact line (`- - |`, `- k: |`): its content is
        //     measured against the line's indentation, so following sibling lines are
        //     swallowed (anchors defined there are unknown, indentation frames go missing)
        let is_header_line = |l: &[u8]| {
            let mut t = l;
            if let Some(p) = t.windows(2).position(|x| matches!(x[0], b' ' | b'\t') && x[1] == b'#') {
                t = &t[..p];
            }
            while matches!(t.last(), Some(b' ' | b'\t')) {
                t = &t[..t.len() - 1];
            }
            let tok = t.rsplit(|&b| b == b' ' || b == b'\t').next().unwrap_or(b"");
            matches!(tok, b"|" | b">" | b"|-" | b"|+" | b">-" | b">+")
        };
        let compact = |l: &[u8]| {
            let t = &l[ind(l).min(l.len())..];
            t.starts_with(b"- ") && {
                let r = c14::trim_ws(&t[2..]);
                r.starts_with(b"- ") || r.windows(2).any(|x| x[0] == b':' && matches!(x[1], b' ' | b'\t'))
            }
        };
        if lines.iter().any(|l| is_header_line(l) && compact(l)) {
            return Some("block-scalar-on-compact-line");
        }
    }
    if e.kind == YamlValidationErrorKind::TabInIndentation {
        // (2) `-<ws with tab>` followed by a flow collection or a quoted scalar (the `: `
        //     that makes the validator think of a mapping key is inside it)
        let ls = text[..e.position.offset.min(text.len())].iter().rposition(|&b| b == b'\n' || b == b'\r').map(|p| p + 1).unwrap_or(0);
        let mut i = ls;
        while text.get(i) == Some(&b' ') {
            i += 1;
        }
        let mut tab = false;
        let mut dashes = 0;
        loop {
            if text.get(i) == Some(&b'-') && matches!(text.get(i + 1), Some(b' ' | b'\t')) {
                dashes += 1;
                i += 1;
                while let Some(&b) = text.get(i) {
                    if b == b'\t' {
                        tab = true;
                    } else if b != b' ' {
                        break;
                    }
                    i += 1;
                }
            } else {
                break;
            }
        }
        // an anchor may stand between the dash and the node
        if text.get(i) == Some(&b'&') {
            while !matches!(text.get(i), None | Some(b' ' | b'\t' | b'\n' | b'\r')) {
                i += 1;
            }
            while matches!(text.get(i), Some(b' ' | b'\t')) {
                i += 1;
            }
        }
        if dashes > 0 && tab && matches!(text.get(i), Some(b'{' | b'[' | b'"' | b'\'')) {
            return Some("tab-after-dash-before-flow-or-quoted");
        }
    }
    None
}

/// Does this line hold a block-context plain scalar (key or value) that contains white space
/// followed by one of `[ { ' " | >`?
fn plain_with_opener(l: &[u8]) -> bool {
    let mut t = c14::trim_ws(l);
    // `- ` chain
    while t.first() == Some(&b'-') && matches!(t.get(1), Some(b' ' | b'\t')) {
        t = c14::trim_ws(&t[1..]);
    }
    let has_opener = |s: &[u8]| {
        s.windows(2).any(|w| (matches!(w[0], b' ' | b'\t') && b"[{'\"|>".contains(&w[1])) || (b",[{".contains(&w[0]) && b"[{'\"".contains(&w[1])))
    };
    let plain_start = |s: &[u8]| !matches!(s.first(), None | Some(b'[' | b'{' | b'\'' | b'"' | b'|' | b'>' | b'&' | b'*' | b'!' | b'#'));
    // a plain value after any `: ` of the line (the key may be quoted)
    for p in 0..t.len().saturating_sub(1) {
        if t[p] == b':' && matches!(t[p + 1], b' ' | b'\t') {
            let val = c14::trim_ws(&t[p + 1..]);
            if plain_start(val) && has_opener(val) {
                return true;
            }
        }
    }
    if !plain_start(t) {
        return false;
    }
    // a plain key, or a plain scalar without any value indicator
    match t.windows(2).position(|w| w[0] == b':' && matches!(w[1], b' ' | b'\t')) {
        Some(p) => has_opener(&t[..p]),
        None => has_opener(if t.ends_with(b":") { &t[..t.len() - 1] } else { t }),
    }
}

fn shape_from_spans(e: &YamlValidationError, r: &gy::RenderedYaml) -> Option<&'static str> {
    use YamlValidationErrorKind as K;
    gy::known_shapes(r).into_iter().find(|&s| match s {
        "compact-collection-return-after-deeper" => e.kind == K::BadIndentation,
        "tab-after-dash-before-flow-or-quoted" => e.kind == K::TabInIndentation,
        // a node opened in the middle of a scalar derails everything after it
        "opener-inside-plain-scalar" => !matches!(e.kind, K::TabInIndentation | K::InvalidUtf8 | K::NestingTooDeep { .. }),
        "block-scalar-on-compact-line" => matches!(e.kind, K::UnknownAnchor { .. } | K::BadIndentation | K::TrailingContent),
        _ => false,
    })
}

fn signature(text: &[u8], e: &YamlValidationError, r: Option<&gy::RenderedYaml>) -> String {
    let mut s = format!("C18/generated-rejected/{}", kind_name(&e.kind));
    if let Some(t) = shape_tag(text, e).or_else(|| r.and_then(|r| shape_from_spans(e, r))) {
        s.push('/');
        s.push_str(t);
    }
    s
}

fn accept_case(text: &[u8], st: &mut Stats, r: Option<&gy::RenderedYaml>) -> Result<(), Fail> {
    st.evals(1);
    match validate(text) {
        Ok(()) => Ok(()),
        Err(e) => {
            // a rejection of a well-formed document; its position must still be consistent
            check_position(text, &e)?;
            Err(Fail::new(signature(text, &e, r), json!({"error": e.to_string(), "kind": format!("{:?}", e.kind), "yaml": show_bytes(text)})))
        }
    }
}

fn opts(cx: &Ctx, avoid: YAvoid) -> YOpts {
    let mut o = c14::opts_for(cx);
    o.avoid = avoid;
    o
}

fn gen_text(u: &mut Src, o: &YOpts, st: Option<&mut Stats>) -> (Vec<gy::Y>, gy::RenderedYaml) {
    let stream = c14::gen_model(u, o);
    let r = gy::render(&stream, u, o);
    if let Some(st) = st {
        c14::classify(&stream, &r, st);
    }
    (stream, r)
}

const SOUP: &[&[u8]] = &[
    b"-", b"- ", b"?", b"? ", b":", b": ", b",", b"[", b"]", b"{", b"}", b"#", b" #", b"&a", b"*a", b"!", b"!!str ", b"|", b">", b"|-", b">+", b"|2",
    b"'", b"\"", b"''", b"\"\"", b"\\", b"\\n", b"\\x", b"%YAML 1.2", b"%TAG ! tag:x,2000:", b"---", b"...", b"--- ", b"\n", b"\r\n", b"\r", b" ", b"  ",
    b"\t", b"a", b"key", b"k: v", b"null", b"~", b"1", b"<<", b"a: b: c", b"\xc3\xa9", b"\xff", b"\xef\xbb\xbf", b"\0",
];

fn mutate(u: &mut Src, base: &[u8]) -> Vec<u8> {
    let mut t = base.to_vec();
    let n = u.range(1, 4);
    for _ in 0..n {
        if t.is_empty() {
            t.extend_from_slice(SOUP[u.below(SOUP.len())]);
            continue;
        }
        let at = u.below(t.len());
        match u.below(10) {
            0 => t[at] = u.byte(),
            1 => t.insert(at, u.byte()),
            2 => {
                t.remove(at);
            }
            3 => t.truncate(at),
            4 => {
                let s: &[u8] = SOUP[u.below(SOUP.len())];
                let tail = t.split_off(at);
                t.extend_from_slice(s);
                t.extend_from_slice(&tail);
            }
            5 => {
                // duplicate a chunk
                let l = u.range(1, 40).min(t.len() - at);
                let chunk = t[at..at + l].to_vec();
                let tail = t.split_off(at);
                t.extend_from_slice(&chunk);
                t.extend_from_slice(&tail);
            }
            6 => {
                // shift the indentation of the line holding `at`
                let ls = t[..at].iter().rposition(|&b| b == b'\n' || b == b'\r').map(|p| p + 1).unwrap_or(0);
                if u.bool() {
                    t.insert(ls, if u.below(6) == 0 { b'\t' } else { b' ' });
                } else if t.get(ls) == Some(&b' ') {
                    t.remove(ls);
                }
            }
            7 => {
                // swap a line break style
                if let Some(p) = t[at..].iter().position(|&b| b == b'\n') {
                    t[at + p] = b'\r';
                }
            }
            8 => {
                let l = u.range(1, 30).min(t.len() - at);
                t.drain(at..at + l);
            }
            _ => {
                let q = *u.pick(&[b'"', b'\'', b':', b'#', b'-', b'[', b'}', b'&', b'*', b'|']);
                t[at] = q;
            }
        }
    }
    t.truncate(4096);
    t
}

pub fn run(cx: &mut Ctx) {
    cx.assume("well-formedness is by construction: G-yaml renders documents from a model using only presentations whose YAML 1.2.2 reading is unambiguous (gen/yaml.rs; cross-checked with PyYAML 6.0.3 during development)");
    cx.assume("position convention as documented on validate::Position: 0-indexed byte offset, 1-indexed line, 1-indexed byte column; LF, CR and CRLF are the line breaks (src/yaml/line_break.rs)");
    cx.assume("termination is observed in-process only (sizes <= 4 KiB); a hang would stall the run rather than be reported");
    for (name, v) in cx.replays.clone() {
        if v["kind"] == "input" {
            let r = replay_input(&v);
            cx.replay_outcome(&name, r);
        }
    }
    let avoid_c18 = YAvoid { compact_collection_return_after_deeper: true, opener_after_space_in_plain: true, block_scalar_on_compact_line: true, ..YAvoid::none() };
    let o = opts(cx, avoid_c18);
    cx.check(
        "generated-accepted",
        RULE,
        Budget { quick: 20_000, thorough: 600_000, max_len: 3000 },
        |u, st| {
            let (stream, r) = gen_text(u, &o, Some(st));
            st.describe(|| c14::describe(&stream, &r));
            accept_case(&r.text, st, Some(&r))
        },
    );
    for cl in [
        "nontrivial", "break-CRLF", "break-CR", "multi-document", "anchor+alias", "chomp_strip", "chomp_clip", "chomp_keep", "literal", "folded",
        "quoted_ambiguous", "block_maps", "block_seqs", "flow_maps", "flow_seqs", "compact_seq_entries", "seq_at_parent_indent", "trailing_comments",
        "comment_lines", "blank_lines", "multiline_plain", "multiline_quoted", "multiline_flow", "tabs_separation",
    ] {
        cx.require_class("generated-accepted", cl, 20);
    }
    let mut plain = [YOpts::plain_data(), YOpts::block_only(), YOpts::flow_only()];
    for p in plain.iter_mut() {
        p.avoid = avoid_c18;
    }
    cx.check(
        "generated-accepted-plain",
        "G-yaml with YOpts::plain_data / block_only / flow_only: validate() must be Ok",
        Budget { quick: 6_000, thorough: 200_000, max_len: 2000 },
        |u, st| {
            let o = &plain[u.below(3)];
            let (stream, r) = gen_text(u, o, Some(st));
            st.describe(|| c14::describe(&stream, &r));
            accept_case(&r.text, st, Some(&r))
        },
    );
    let open = opts(cx, YAvoid::none());
    cx.check(
        "open-finding-shapes",
        "G-yaml with no known-finding shape avoided; rejections with a listed signature are counted, others are violations",
        Budget { quick: 3_000, thorough: 60_000, max_len: 3000 },
        |u, st| {
            let (stream, r) = gen_text(u, &open, Some(st));
            st.describe(|| c14::describe(&stream, &r));
            accept_case(&r.text, st, Some(&r))
        },
    );

    let small = {
        let mut s = opts(cx, YAvoid::none());
        s.max_nodes = 14;
        s.max_depth = 12;
        s
    };
    cx.check(
        "arbitrary-positions",
        "raw bytes / indicator soups / mutated generated streams (<= 4 KiB): validate() returns; on Err offset<=len and line/column = naive position of offset",
        Budget { quick: 150_000, thorough: 5_000_000, max_len: 2500 },
        |u, st| {
            let (class, text): (&str, Vec<u8>) = match u.below(8) {
                0 => {
                    let n = u.len_biased(600, &[0, 1, 63, 64, 65]);
                    ("raw-bytes", u.bytes(n))
                }
                1 | 2 => {
                    let n = u.range(0, 60);
                    let mut t = vec![];
                    for _ in 0..n {
                        t.extend_from_slice(SOUP[u.below(SOUP.len())]);
                        if u.below(4) == 0 {
                            t.push(b' ');
                        }
                        if u.below(5) == 0 {
                            t.push(b'\n');
                            t.extend(std::iter::repeat(b' ').take(u.below(6)));
                        }
                    }
                    ("soup", t)
                }
                _ => {
                    let (_, r) = gen_text(u, &small, None);
                    ("mutated", mutate(u, &r.text))
                }
            };
            st.class(class);
            st.size(text.len());
            st.describe(|| json!({"class": class, "text": show_bytes(&text), "text_hex": hex(&text)}));
            st.evals(1);
            match validate(&text) {
                Ok(()) => {
                    st.class("accepted");
                    Ok(())
                }
                Err(e) => {
                    st.class("rejected");
                    st.class(&format!("kind-{}", kind_name(&e.kind)));
                    st.nontrivial(hash_bytes(&text));
                    st.class_if(text.contains(&b'\r'), "rejected-with-CR");
                    st.class_if(e.position.line > 1, "rejected-past-line-1");
                    st.sample(class, || json!({"text": show_bytes(&text), "error": e.to_string()}));
                    check_position(&text, &e)
                }
            }
        },
    );
    for cl in ["raw-bytes", "soup", "mutated", "rejected", "accepted", "rejected-with-CR", "rejected-past-line-1"] {
        cx.require_class("arbitrary-positions", cl, 20);
    }
}

/// Structured replay: `{"subcheck": "generated-accepted" | "arbitrary-positions", "input": {"yaml"| "yaml_hex": ..}}`
fn replay_input(v: &Value) -> Option<Fail> {
    let inp = &v["input"];
    let text: Vec<u8> = match (inp["yaml"].as_str(), inp["yaml_hex"].as_str()) {
        (_, Some(h)) => unhex(h),
        (Some(s), None) => s.as_bytes().to_vec(),
        _ => return Some(Fail::new("C18/replay/malformed", json!({"why": "no yaml"}))),
    };
    let positions_only = v["subcheck"] == "arbitrary-positions";
    let mut st = Stats::default();
    let r = catch(|| {
        if positions_only {
            match validate(&text) {
                Ok(()) => Ok(()),
                Err(e) => check_position(&text, &e),
            }
        } else {
            accept_case(&text, &mut st, None)
        }
    });
    match r {
        Ok(Ok(())) => None,
        Ok(Err(f)) => Some(f),
        Err((loc, msg)) => Some(Fail::new(format!("panic@{}", panic_sig(&loc)), json!({"panic": msg, "location": loc}))),
    }
}
