//! C09 — JSON string escaping round-trips and escapes exactly the required set;
//! the vectorised escape scanner finds exactly the first quote/backslash/C0 byte
//! (DESIGN §4 C09).
use crate::engine::*;
use crate::gen::text::{self, Profile};
use serde_json::json;
use succinctly::jq::escape::{
    escape_json_body, write_json_body_jq, write_json_body_jq_ascii, write_json_body_yq, write_json_body_yq_ascii,
};
use succinctly::yaml::simd::find_json_escape;

pub const RULE: &str = "writers: (a) every Unicode scalar value, alone and inside a 70-byte ASCII frame whose left pad sweeps 0..36, x 4 writers (exhaustive); (b) generated strings of 0..300 chars (filler profiles ascii/mixed/multibyte/controls/any-scalar) with 1..8 convention-sensitive characters planted at chosen byte offsets mod 32; output decoded unit-by-unit with a harness JSON-string-body decoder: unit i decodes to char i, and is an escape iff the convention requires (jq: C0,DEL,quote,backslash; yq: C0,quote,backslash; ascii modes: + every non-ASCII char, output pure ASCII). scanner: arbitrary byte buffers (special-byte-rich, >=0x80-rich, sparse) x every start in 0..=len+2 against a naive loop. Non-trivial: >=1 escapable char and >=17 bytes; distinct by hash(string) / hash(bytes).";

#[derive(Clone, Copy, Debug, PartialEq, Eq)]
pub enum Conv {
    Jq,
    JqAscii,
    Yq,
    YqAscii,
}

pub const CONVS: [Conv; 4] = [Conv::Jq, Conv::JqAscii, Conv::Yq, Conv::YqAscii];

impl Conv {
    pub fn name(self) -> &'static str {
        match self {
            Conv::Jq => "jq",
            Conv::JqAscii => "jq_ascii",
            Conv::Yq => "yq",
            Conv::YqAscii => "yq_ascii",
        }
    }
    /// The statement's escape set.
    pub fn must_escape(self, c: char) -> bool {
        let cp = c as u32;
        let base = cp < 0x20 || c == '"' || c == '\\';
        match self {
            Conv::Jq => base || cp == 0x7f,
            Conv::JqAscii => base || cp == 0x7f || cp >= 0x80,
            Conv::Yq => base,
            Conv::YqAscii => base || cp >= 0x80,
        }
    }
    pub fn ascii(self) -> bool {
        matches!(self, Conv::JqAscii | Conv::YqAscii)
    }
    pub fn write(self, s: &str) -> Result<String, core::fmt::Error> {
        let mut out = String::new();
        match self {
            Conv::Jq => write_json_body_jq(&mut out, s)?,
            Conv::JqAscii => write_json_body_jq_ascii(&mut out, s)?,
            Conv::Yq => write_json_body_yq(&mut out, s)?,
            Conv::YqAscii => write_json_body_yq_ascii(&mut out, s)?,
        }
        Ok(out)
    }
    fn via_helper(self, s: &str) -> String {
        match self {
            Conv::Jq => escape_json_body(write_json_body_jq, s),
            Conv::JqAscii => escape_json_body(write_json_body_jq_ascii, s),
            Conv::Yq => escape_json_body(write_json_body_yq, s),
            Conv::YqAscii => escape_json_body(write_json_body_yq_ascii, s),
        }
    }
}

/// One decoded unit of a JSON string body.
#[derive(Clone, Copy, Debug, PartialEq, Eq)]
pub struct Unit {
    pub ch: char,
    pub escaped: bool,
}

/// Harness-side decoder of a JSON string *body* (RFC 8259 §7, no surrounding
/// quotes). Errors: raw quote, raw control < 0x20, bad escape, lone surrogate.
pub fn decode_body(body: &str) -> Result<Vec<Unit>, String> {
    let cs: Vec<char> = body.chars().collect();
    let mut out = Vec::with_capacity(cs.len());
    let hex4 = |cs: &[char], i: usize| -> Result<u32, String> {
        if i + 4 > cs.len() {
            return Err(format!("truncated \\u escape at char {}", i));
        }
        let mut v = 0u32;
        for k in 0..4 {
            let d = cs[i + k].to_digit(16).ok_or_else(|| format!("bad hex digit {:?} at char {}", cs[i + k], i + k))?;
            v = v * 16 + d;
        }
        Ok(v)
    };
    let mut i = 0;
    while i < cs.len() {
        let c = cs[i];
        if c == '"' {
            return Err(format!("raw quote at char {}", i));
        }
        if (c as u32) < 0x20 {
            return Err(format!("raw control U+{:04X} at char {}", c as u32, i));
        }
        if c != '\\' {
            out.push(Unit { ch: c, escaped: false });
            i += 1;
            continue;
        }
        let e = *cs.get(i + 1).ok_or("dangling backslash")?;
        let simple = match e {
            '"' => Some('"'),
            '\\' => Some('\\'),
            '/' => Some('/'),
            'b' => Some('\u{8}'),
            'f' => Some('\u{c}'),
            'n' => Some('\n'),
            'r' => Some('\r'),
            't' => Some('\t'),
            _ => None,
        };
        if let Some(ch) = simple {
            out.push(Unit { ch, escaped: true });
            i += 2;
            continue;
        }
        if e != 'u' {
            return Err(format!("unknown escape \\{} at char {}", e, i));
        }
        let hi = hex4(&cs, i + 2)?;
        i += 6;
        if (0xD800..0xDC00).contains(&hi) {
            if cs.get(i) == Some(&'\\') && cs.get(i + 1) == Some(&'u') {
                let lo = hex4(&cs, i + 2)?;
                if (0xDC00..0xE000).contains(&lo) {
                    let cp = 0x10000 + ((hi - 0xD800) << 10) + (lo - 0xDC00);
                    out.push(Unit { ch: char::from_u32(cp).ok_or("bad pair")?, escaped: true });
                    i += 6;
                    continue;
                }
            }
            return Err(format!("lone high surrogate \\u{:04x}", hi));
        }
        if (0xDC00..0xE000).contains(&hi) {
            return Err(format!("lone low surrogate \\u{:04x}", hi));
        }
        out.push(Unit { ch: char::from_u32(hi).ok_or("bad scalar")?, escaped: true });
    }
    Ok(out)
}

fn cp_tag(c: char) -> String {
    format!("U+{:04X}", c as u32)
}

/// All assertions for one (string, convention).
pub fn check_string(conv: Conv, s: &str, st: &mut Stats) -> Result<(), Fail> {
    let tag = |what: &str| format!("C09/{}/{}", conv.name(), what);
    let info = |out: &str| {
        json!({"conv": conv.name(), "input_debug": format!("{:?}", s.chars().take(400).collect::<String>()), "input_hex": hex(&s.as_bytes()[..s.len().min(600)]), "output": out.chars().take(800).collect::<String>()})
    };
    let out = match conv.write(s) {
        Ok(o) => o,
        Err(_) => fail!(tag("writer-returned-error"), {"case": info("")}),
    };
    st.evals(1);
    let units = match decode_body(&out) {
        Ok(u) => u,
        Err(e) => fail!(tag("output-not-a-json-string-body"), {"case": info(&out), "decode_error": e}),
    };
    if conv.ascii() && !out.is_ascii() {
        fail!(tag("ascii-mode-output-not-ascii"), {"case": info(&out)});
    }
    let mut n = 0usize;
    let mut it = units.iter();
    for c in s.chars() {
        let Some(un) = it.next() else {
            fail!(tag("roundtrip/output-too-short"), {"case": info(&out), "missing_from_char_index": n});
        };
        if un.ch != c {
            fail!(tag("roundtrip/char-mismatch"), {"case": info(&out), "index": n, "expected": cp_tag(c), "actual": cp_tag(un.ch)});
        }
        let must = conv.must_escape(c);
        if un.escaped && !must {
            fail!(tag("escaped-but-not-required"), {"case": info(&out), "index": n, "char": cp_tag(c)});
        }
        if !un.escaped && must {
            fail!(tag("required-escape-left-raw"), {"case": info(&out), "index": n, "char": cp_tag(c)});
        }
        n += 1;
    }
    if it.next().is_some() {
        fail!(tag("roundtrip/output-too-long"), {"case": info(&out), "input_chars": n, "output_units": units.len()});
    }
    Ok(())
}

// ------------------------------------------------------------------ generated strings

pub struct StrCase {
    pub s: String,
    pub profile: Profile,
    /// byte offsets at which a convention-sensitive character was planted
    pub planted: Vec<usize>,
}

pub fn gen_string(u: &mut Src, max_chars: usize) -> StrCase {
    let p = text::profile(u);
    let nplant = match u.below(8) {
        0 => 0,
        1..=4 => 1 + u.below(2),
        _ => 1 + u.below(8),
    };
    let budget = u.len_biased(max_chars, &[15, 16, 17, 31, 32, 33, 47, 48, 63, 64, 65, 96, 128]);
    let mut s = String::new();
    let mut planted = vec![];
    let mut chars = 0usize;
    for k in 0..=nplant {
        // filler segment; for planted segments steer the next byte offset to a chosen residue mod 32
        let seg = if nplant == 0 { budget } else { u.range(0, (budget / (nplant + 1)).max(1) + 40) };
        let mut n = 0;
        while n < seg && chars < max_chars {
            s.push(text::filler_char(u, p));
            n += 1;
            chars += 1;
        }
        if k < nplant {
            let want = u.below(32);
            let mut guard = 0;
            while s.len() % 32 != want && guard < 32 {
                s.push(if p == Profile::AsciiOnly || u.bool() { 'x' } else { '~' });
                guard += 1;
            }
            planted.push(s.len());
            s.push(*u.pick(text::PLANTS));
            chars += 1;
        }
    }
    StrCase { s, profile: p, planted }
}

fn classify_string(c: &StrCase, st: &mut Stats) {
    let s = &c.s;
    let esc: Vec<usize> = s.char_indices().filter(|(_, ch)| CONVS.iter().any(|cv| !cv.ascii() && cv.must_escape(*ch))).map(|(i, _)| i).collect();
    let nt = !esc.is_empty() && s.len() >= 17;
    if nt {
        st.nontrivial(hash_str(s));
    }
    st.class_if(nt, "nontrivial");
    st.class_if(s.is_empty(), "empty");
    st.class_if(s.len() >= 32, "len>=32");
    st.class_if(s.len() >= 64, "len>=64");
    st.class_if(!s.is_ascii(), "has-non-ascii");
    st.class_if(s.chars().any(|c| c as u32 >= 0x10000), "has-astral");
    st.class_if(s.contains('\u{7f}'), "has-DEL");
    st.class_if(s.chars().any(|c| (0x80..0xa0).contains(&(c as u32))), "has-C1");
    st.class_if(s.contains('\u{8}') || s.contains('\u{c}'), "has-BS-or-FF");
    st.class(&format!("profile-{:?}", c.profile));
    for &o in &esc {
        if s.len() >= 17 {
            st.class(&format!("escapable-at-byte-offset-mod32={:02}", o % 32));
        }
    }
    // an escapable char directly after >= 32 clean bytes: the SIMD scanner's main loop finds it
    let mut prev = 0usize;
    let mut long_span = false;
    for &o in &esc {
        // yq's scanner only stops at C0/quote/backslash (DEL is raw there), close enough for a class
        if o - prev >= 32 {
            long_span = true;
        }
        prev = o + 1;
    }
    st.class_if(long_span, "clean-span>=32-before-escapable");
    st.size(s.len());
    let cls = if !nt { "trivial" } else if !s.is_ascii() { "nontrivial-non-ascii" } else { "nontrivial-ascii" };
    st.sample(cls, || json!({"string_debug": format!("{:?}", s.chars().take(120).collect::<String>()), "bytes": s.len(), "planted_at": c.planted, "profile": format!("{:?}", c.profile)}));
}

// ------------------------------------------------------------------ scanner

fn scan_model(b: &[u8], start: usize) -> usize {
    let mut i = start;
    while i < b.len() {
        let x = b[i];
        if x == b'"' || x == b'\\' || x < 0x20 {
            return i;
        }
        i += 1;
    }
    b.len()
}

pub fn gen_scan_bytes(u: &mut Src, max: usize) -> (Vec<u8>, &'static str) {
    let n = u.len_biased(max, &[15, 16, 17, 31, 32, 33, 47, 48, 49, 63, 64, 65, 95, 96, 97, 128]);
    let kind = u.below(6);
    let name = ["sparse-specials", "high-bytes", "uniform", "boundary-bytes", "clean-then-one", "signed-compare-trap"][kind];
    let mut v = Vec::with_capacity(n);
    match kind {
        0 => {
            // clean ASCII / high bytes with rare specials
            for _ in 0..n {
                v.push(if u.ratio(1, 24) { *u.pick(&[b'"', b'\\', 0x00, 0x1f, 0x0a, 0x09]) } else if u.ratio(1, 4) { 0x80 + u.below(0x80) as u8 } else { 0x20 + u.below(0x5f) as u8 });
            }
        }
        1 => {
            for _ in 0..n {
                v.push(if u.ratio(1, 40) { u.below(0x20) as u8 } else { 0x80 + u.below(0x80) as u8 });
            }
        }
        2 => v = u.bytes(n),
        3 => {
            // values next to every threshold of the predicate
            let pool = [0x1e, 0x1f, 0x20, 0x21, 0x22, 0x23, 0x5b, 0x5c, 0x5d, 0x7f, 0x80, 0x9f, 0xa0, 0xa2, 0xdc, 0xff, 0x00];
            for _ in 0..n {
                v.push(if u.ratio(1, 6) { *u.pick(&pool) } else { *u.pick(&[0x20u8, 0x21, 0x23, 0x5b, 0x5d, 0x7f, 0x80, 0xff, 0xa2, 0xdc]) });
            }
        }
        4 => {
            let fill = *u.pick(&[b'a', 0x20, 0x7f, 0x80, 0xff, 0xa2]);
            v = vec![fill; n];
            if n > 0 {
                let at = u.below(n);
                v[at] = *u.pick(&[b'"', b'\\', 0x00, 0x1f, 0x0d]);
            }
        }
        _ => {
            // only bytes that a signed compare / wrong threshold would misread; no true special
            for _ in 0..n {
                v.push(*u.pick(&[0x80u8, 0x81, 0x9f, 0xbf, 0xc2, 0xe2, 0xf0, 0xff, 0x20, 0x21, 0x23, 0x5b, 0x5d, 0x7f, 0xa2, 0xdc]));
            }
        }
    }
    (v, name)
}

pub fn check_scan(b: &[u8], st: &mut Stats) -> Result<(), Fail> {
    for start in 0..=b.len() + 2 {
        let e = scan_model(b, start);
        let a = find_json_escape(b, start);
        if e != a {
            fail!(format!("C09/find_json_escape/{}", if a < e { "stops-early" } else { "misses-special" }), {"bytes_hex": hex(b), "len": b.len(), "start": start, "expected": e, "actual": a});
        }
    }
    st.evals(b.len() as u64 + 3);
    Ok(())
}

fn scalar_from_index(i: u32) -> char {
    // 0..0x10F800 -> all scalar values (skipping the surrogate gap)
    let cp = if i >= 0xD800 { i + 0x800 } else { i };
    char::from_u32(cp).expect("scalar")
}

pub fn run(cx: &mut Ctx) {
    cx.assume("JSON string-body decoder, escape-set predicates and the naive scanner loop are harness code (RFC 8259 section 7)");
    cx.assume("only the dispatched scanner succinctly::yaml::simd::find_json_escape is reachable from outside the crate (AVX2 on this host); the per-kernel sse2/avx2/scalar entry points are pub(crate)");

    for (name, v) in cx.replays.clone() {
        if v["kind"] == "input" {
            let r = replay_input(&v);
            cx.replay_outcome(&name, r);
        }
    }

    // (a) exhaustive over scalar values
    cx.exhaustive(
        "writers-every-scalar-value",
        "every Unicode scalar value (1 112 064) as a 1-char string and inside an ASCII frame (left pad = cp mod 37, right pad 33), x 4 writers; decode + exact escape-set membership",
        true,
        |shard, nshards, st| {
            const N: u32 = 0x110000 - 0x800;
            let mut i = shard as u32;
            let mut framed = String::with_capacity(80);
            let mut one = String::with_capacity(4);
            while i < N {
                let c = scalar_from_index(i);
                one.clear();
                one.push(c);
                framed.clear();
                for _ in 0..(i % 37) {
                    framed.push('a');
                }
                framed.push(c);
                framed.push_str("bbbbbbbbbbbbbbbbbbbbbbbbbbbbbbbbb");
                for conv in CONVS {
                    check_string(conv, &one, st)?;
                    check_string(conv, &framed, st)?;
                }
                if conv_class_boundary(c) {
                    for conv in CONVS {
                        let a = conv.via_helper(&framed);
                        let b = conv.write(&framed).unwrap_or_default();
                        check_eq!(format!("C09/{}/escape_json_body-differs-from-writer", conv.name()), b, a, {"char": cp_tag(c)});
                    }
                }
                st.cases += 1;
                if (c as u32) < 0x100 || i % 4099 == 0 {
                    st.nontrivial(c as u64);
                }
                i += nshards as u32;
            }
            st.class("scalar-values-covered");
            Ok(())
        },
    );

    // (b) generated strings
    let max_chars = 300;
    cx.check(
        "writers-generated-strings",
        RULE,
        Budget { quick: 1_200_000, thorough: 60_000_000, max_len: 1500 },
        |u, st| {
            let c = gen_string(u, max_chars);
            classify_string(&c, st);
            st.describe(|| json!({"string_debug": format!("{:?}", c.s), "string_hex": hex(c.s.as_bytes()), "planted_at": c.planted}));
            for conv in CONVS {
                check_string(conv, &c.s, st)?;
            }
            Ok(())
        },
    );
    for r in 0..32 {
        cx.require_class("writers-generated-strings", &format!("escapable-at-byte-offset-mod32={:02}", r), 50);
    }
    for cl in ["has-astral", "has-DEL", "has-C1", "has-BS-or-FF", "clean-span>=32-before-escapable", "len>=64"] {
        cx.require_class("writers-generated-strings", cl, 50);
    }

    // (c) scanner
    let max_scan = if cx.tier == Tier::Quick { 200 } else { 700 };
    cx.check(
        "scanner-vs-naive",
        "byte buffers 0..200 (700 thorough) bytes in six families (sparse specials, >=0x80-heavy, uniform, threshold-neighbour values, clean-then-one, signed-compare traps) x every start in 0..=len+2; expected = naive loop over b[start..] for quote/backslash/<0x20, len when start>=len",
        Budget { quick: 2_000_000, thorough: 90_000_000, max_len: 900 },
        |u, st| {
            let (b, kind) = gen_scan_bytes(u, max_scan);
            let first = scan_model(&b, 0);
            let nt = b.len() >= 17 && b.iter().any(|&x| x == b'"' || x == b'\\' || x < 0x20);
            if nt {
                st.nontrivial(hash_bytes(&b));
            }
            st.class_if(nt, "nontrivial");
            st.class(&format!("family-{}", kind));
            st.class_if(b.iter().any(|&x| x >= 0x80), "has-bytes>=0x80");
            st.class_if(first >= 32 && first < b.len(), "first-special-after>=32-clean-bytes");
            st.class_if(first == b.len() && b.len() >= 32, "no-special-len>=32");
            if first < b.len() && b.len() >= 33 {
                st.class(&format!("first-special-at-offset-mod32={:02}", first % 32));
            }
            st.size(b.len());
            st.sample(kind, || json!({"bytes": show_bytes(&b[..b.len().min(80)]), "len": b.len(), "first_special": first}));
            st.describe(|| json!({"bytes_hex": hex(&b)}));
            check_scan(&b, st)
        },
    );
    for cl in ["has-bytes>=0x80", "first-special-after>=32-clean-bytes", "no-special-len>=32"] {
        cx.require_class("scanner-vs-naive", cl, 50);
    }

    // (d) scanner: every byte value at every position of a 0..=80-byte clean frame (complete family)
    cx.exhaustive(
        "scanner-every-byte-value-every-position",
        "frame of clean filler (one of 'a', 0x7f, 0x80, 0xff) of length 1..=80, one position overwritten by every byte value 0..=255, every start 0..=len+2",
        true,
        |shard, nshards, st| {
            let mut idx = 0usize;
            for &fill in &[b'a', 0x7f, 0x80, 0xff] {
                for len in 1..=80usize {
                    idx += 1;
                    if idx % nshards != shard {
                        continue;
                    }
                    // positions: all for short frames, all for long frames too (80*256*83 is small)
                    for pos in 0..len {
                        let mut b = vec![fill; len];
                        for v in 0..=255u8 {
                            b[pos] = v;
                            check_scan(&b, st)?;
                            st.cases += 1;
                        }
                    }
                }
            }
            Ok(())
        },
    );
}

/// Characters around every boundary of the escape sets (used to sample the helper).
fn conv_class_boundary(c: char) -> bool {
    let cp = c as u32;
    cp <= 0x100 || matches!(cp, 0x7ff | 0x800 | 0xd7ff | 0xe000 | 0xffff | 0x10000 | 0x10ffff | 0x2028 | 0x2029)
}

fn replay_input(v: &serde_json::Value) -> Option<Fail> {
    let mut st = Stats::default();
    let inp = &v["input"];
    match v["subcheck"].as_str().unwrap_or("") {
        "scanner-vs-naive" => {
            let b = unhex(inp["bytes_hex"].as_str().unwrap_or(""));
            check_scan(&b, &mut st).err()
        }
        _ => {
            let b = unhex(inp["string_hex"].as_str().unwrap_or(""));
            let s = match String::from_utf8(b) {
                Ok(s) => s,
                Err(_) => return Some(Fail::new("C09/replay/bad-input", json!({}))),
            };
            for conv in CONVS {
                if let Err(f) = check_string(conv, &s, &mut st) {
                    return Some(f);
                }
            }
            None
        }
    }
}
