//! C01 — BitVec rank/select/access exact (DESIGN §4 C01).
use crate::engine::*;
use crate::gen::bits;
use serde_json::json;
use succinctly::{BitVec, Config, RankSelect};

pub const RULE: &str = "G-bits word vectors (density classes: zero/one/single/sparse/bursty/thinned/dense/periodic/mixed) x len in 0..=64*words (boundary-biased, surplus words, garbage past len) x select_sample_rate in {1,2,3,7,64,255,256,257,512,4095,4096} U [1,4096]; every answer compared with a bit-at-a-time model of the first len bits. Non-trivial: len>=1 and >=1 set bit among the first len bits; distinct by hash(words,len,rate).";

const RATES: &[u32] = &[1, 2, 3, 7, 64, 255, 256, 257, 512, 4095, 4096];

pub struct Case {
    pub words: Vec<u64>,
    pub len: usize,
    pub rate: u32,
    pub rate2: u32,
    pub density: bits::Density,
}

fn rate(u: &mut Src) -> u32 {
    if u.ratio(2, 3) {
        *u.pick(RATES)
    } else {
        u.range(1, 4096) as u32
    }
}

pub fn gen_case(u: &mut Src, max_words: usize) -> Case {
    let (mut words, density) = bits::words(u, max_words);
    let len = bits::bit_len(u, words.len());
    // garbage past len: leave as generated / force all ones / clear
    match u.below(4) {
        0 => {
            for i in len..words.len() * 64 {
                words[i / 64] |= 1u64 << (i % 64);
            }
        }
        1 => {
            for i in len..words.len() * 64 {
                words[i / 64] &= !(1u64 << (i % 64));
            }
        }
        _ => {}
    }
    let r1 = rate(u);
    let r2 = rate(u);
    Case { words, len, rate: r1, rate2: r2, density }
}

fn query_points(u: &mut Src, len: usize, extra: usize, dense_limit: usize) -> Vec<usize> {
    let hi = len + extra;
    if hi <= dense_limit {
        return (0..=hi).collect();
    }
    let mut v: Vec<usize> = vec![0, 1, len.saturating_sub(1), len, len + 1, len + 63, len + 64, len + 65, hi];
    // every 512-bit and 64-bit boundary neighbourhood (sampled)
    let step = (len / 64 / 200).max(1);
    let mut w = 0;
    while w * 64 <= len {
        for d in [-1isize, 0, 1] {
            let p = (w * 64) as isize + d;
            if p >= 0 {
                v.push(p as usize);
            }
        }
        w += step;
    }
    for _ in 0..300 {
        v.push(u.range(0, hi));
    }
    // a dense window
    let s = u.range(0, len);
    v.extend(s..(s + 130).min(hi));
    v
}

pub fn check_case(c: &Case, u: &mut Src, st: &mut Stats) -> Result<(), Fail> {
    let len = c.len;
    let ones = bits::ones_positions(&c.words, len);
    let zeros: Vec<usize> = if len <= 1 << 16 {
        (0..len).filter(|&i| !bits::bit(&c.words, i)).collect()
    } else {
        vec![]
    };
    // prefix counts
    let mut pre = Vec::with_capacity(len + 1);
    pre.push(0usize);
    let mut acc = 0usize;
    for i in 0..len {
        acc += bits::bit(&c.words, i) as usize;
        pre.push(acc);
    }
    let n1 = ones.len();
    let n0 = len - n1;
    let info = |what: &str| json!({"what": what, "words": c.words.len(), "len": len, "rate": c.rate, "density": format!("{:?}", c.density), "words_hex": c.words.iter().take(64).map(|w| format!("{:016x}", w)).collect::<Vec<_>>()});

    for (which, rate) in [("rate1", c.rate), ("rate2", c.rate2)] {
        let bv = BitVec::with_config(c.words.clone(), len, Config { select_sample_rate: rate });
        let tag = |api: &str| format!("C01/{}", api);
        check_eq!(tag("len"), len, bv.len(), {"case": info(which)});
        check_eq!(tag("is_empty"), len == 0, bv.is_empty(), {"case": info(which)});
        check_eq!(tag("count_ones"), n1, bv.count_ones(), {"case": info(which)});
        check_eq!(tag("count_zeros"), n0, bv.count_zeros(), {"case": info(which)});
        st.evals(4);
        // get
        let gpts = if len <= 4096 { (0..len).collect::<Vec<_>>() } else { query_points(u, len - 1, 0, 0) };
        for &i in &gpts {
            if i < len {
                check_eq!(tag("get"), bits::bit(&c.words, i), bv.get(i), {"case": info(which), "i": i});
            }
        }
        st.evals(gpts.len() as u64);
        // rank
        let mut rpts = query_points(u, len, 130, 3000);
        rpts.push(usize::MAX);
        rpts.push(usize::MAX - 1);
        rpts.push(1usize << 32);
        rpts.push((1usize << 32) + 1);
        let dynrs: &dyn RankSelect = &bv;
        for &i in &rpts {
            let m = i.min(len);
            let r1 = pre[m];
            let r0 = m - r1;
            check_eq!(tag("rank1"), r1, bv.rank1(i), {"case": info(which), "i": i});
            check_eq!(tag("rank0"), r0, bv.rank0(i), {"case": info(which), "i": i});
            check_eq!(tag("dyn-rank1"), r1, dynrs.rank1(i), {"case": info(which), "i": i});
            check_eq!(tag("dyn-rank0"), r0, dynrs.rank0(i), {"case": info(which), "i": i});
        }
        st.evals(rpts.len() as u64 * 4);
        // select1
        let mut kpts: Vec<usize> = if n1 + 3 <= 3000 {
            (0..n1 + 3).collect()
        } else {
            let mut v: Vec<usize> = (0..600).map(|_| u.range(0, n1 + 2)).collect();
            v.extend([0, 1, n1 - 1, n1, n1 + 1]);
            let r = rate as usize;
            for m in 0..(n1 / r).min(200) {
                let s = u.range(0, n1 / r) * r;
                let _ = m;
                v.extend([s.saturating_sub(1), s, s + 1]);
            }
            v
        };
        kpts.extend([usize::MAX, usize::MAX - 1, 1usize << 32, (1usize << 32) + 1]);
        for &k in &kpts {
            let e = ones.get(k).copied();
            check_eq!(tag("select1"), e, bv.select1(k), {"case": info(which), "k": k});
            check_eq!(tag("dyn-select1"), e, dynrs.select1(k), {"case": info(which), "k": k});
        }
        st.evals(kpts.len() as u64 * 2);
        // select0
        if len <= 1 << 16 {
            let mut kpts: Vec<usize> = if n0 + 3 <= 1500 {
                (0..n0 + 3).collect()
            } else {
                let mut v: Vec<usize> = (0..300).map(|_| u.range(0, n0 + 2)).collect();
                v.extend([0, 1, n0 - 1, n0, n0 + 1]);
                v
            };
            kpts.extend([usize::MAX, 1usize << 32]);
            for &k in &kpts {
                check_eq!(tag("select0"), zeros.get(k).copied(), bv.select0(k), {"case": info(which), "k": k});
            }
            st.evals(kpts.len() as u64);
        }
    }
    Ok(())
}

fn classify(c: &Case, st: &mut Stats) {
    let len = c.len;
    let ones = bits::ones_positions(&c.words, len);
    let nt = len >= 1 && !ones.is_empty();
    if nt {
        let mut h = hash_words(&c.words);
        h = mix64(h ^ len as u64 ^ ((c.rate as u64) << 40) ^ ((c.rate2 as u64) << 52));
        st.nontrivial(h);
    }
    st.class_if(nt, "nontrivial");
    st.class_if(len % 64 != 0, "len-not-multiple-of-64");
    let stray = (len..c.words.len() * 64).any(|i| bits::bit(&c.words, i));
    st.class_if(stray, "stray-bits-past-len");
    st.class_if(len.div_ceil(64) < c.words.len(), "surplus-words");
    st.class_if(c.rate != 256, "rate!=256");
    st.class_if(len > 512, "len>512");
    st.class_if(len > 8 * 1024 * 8, "len>8KiB");
    let gap = ones.windows(2).any(|w| w[1] / 64 - w[0] / 64 >= 24);
    st.class_if(gap, "zero-gap>=24-words-between-ones");
    st.class_if(ones.len() > c.rate as usize, "ones>rate");
    st.class(&format!("density-{:?}", c.density));
    st.size(len);
    let cls = if gap { "gap" } else if stray { "stray" } else { "plain" };
    st.sample(cls, || json!({"words": c.words.len(), "len": len, "rate": [c.rate, c.rate2], "density": format!("{:?}", c.density), "ones": ones.len(), "first_words": c.words.iter().take(4).map(|w| format!("{:016x}", w)).collect::<Vec<_>>()}));
}

pub fn run(cx: &mut Ctx) {
    cx.assume("reference model: one-bit-at-a-time loops over the input words (harness code)");
    cx.assume("BitVec::get(i>=len) is a documented panic and is not called");
    let max_words = if cx.tier == Tier::Quick { 600 } else { 4000 };
    cx.check(
        "bitvec-vs-model",
        RULE,
        Budget { quick: 80_000, thorough: 3_000_000, max_len: 6000 },
        |u, st| {
            let c = gen_case(u, max_words);
            classify(&c, st);
            st.describe(|| describe(&c));
            check_case(&c, u, st)
        },
    );
    for cl in ["stray-bits-past-len", "surplus-words", "zero-gap>=24-words-between-ones", "ones>rate", "len>512"] {
        cx.require_class("bitvec-vs-model", cl, 20);
    }
    if cx.tier == Tier::Thorough {
        // large vectors: up to 65 536 words (2^22 bits), entropy expanded by region fills
        cx.check(
            "bitvec-vs-model-large",
            RULE,
            Budget { quick: 0, thorough: 400, max_len: 20000 },
            |u, st| {
                let n = u.range(4000, 65536);
                let d = bits::density(u);
                let mut words = expand_words(u, n, d);
                let len = bits::bit_len(u, words.len());
                if u.bool() {
                    for i in len..(len + 200).min(words.len() * 64) {
                        words[i / 64] |= 1u64 << (i % 64);
                    }
                }
                let c = Case { words, len, rate: rate(u), rate2: rate(u), density: d };
                classify(&c, st);
                st.describe(|| describe(&c));
                check_case(&c, u, st)
            },
        );
    }
}

fn describe(c: &Case) -> serde_json::Value {
    json!({"words_hex": c.words.iter().take(2048).map(|w| format!("{:016x}", w)).collect::<Vec<_>>(), "n_words": c.words.len(), "len": c.len, "rate": c.rate, "rate2": c.rate2})
}

/// Large vectors from little entropy: a few hundred generated words tiled with
/// per-tile perturbation drawn from the entropy, plus long zero runs.
fn expand_words(u: &mut Src, n: usize, d: bits::Density) -> Vec<u64> {
    let base = bits::words_of(u, 512.min(n), d);
    let mut w = Vec::with_capacity(n);
    while w.len() < n {
        match u.below(4) {
            0 => {
                let z = u.range(1, 3000).min(n - w.len());
                w.extend(std::iter::repeat(0u64).take(z));
            }
            _ => {
                let s = u.below(base.len().max(1));
                let l = u.range(1, base.len().max(1)).min(n - w.len());
                let x = u.u64();
                for i in 0..l {
                    w.push(base[(s + i) % base.len().max(1)] ^ if i % 97 == 0 { x } else { 0 });
                }
            }
        }
    }
    w
}
