//! C05 — JSON semi-index independent of engine (DESIGN §4 C05).
//!
//! Differential: the statement names the routes. Reference = the byte-at-a-time state
//! machines `standard::build_semi_index_scalar` / `simple::build_semi_index`; compared
//! routes = PFSM tables, SSE2, AVX2 (when the CPU has it), the runtime dispatcher, and the
//! library constructors `JsonIndex::build` / `SimpleJsonIndex::build`.
//! `(ib, bp, state)` are compared exactly as the in-repo tests compare them
//! (`tests/simd_level_tests.rs`: `Vec<u64>` equality of `ib` and `bp`, equality of `state`).
use crate::engine::*;
use crate::gen::json::{GenOpts, KeyPalette, StrPalette};
use crate::gen::jsonmut;
use serde_json::{json, Value};
use succinctly::json::{simd, simple, standard, JsonIndex, SimpleJsonIndex};

pub const RULE: &str = "bytes 0..4096 (64 KiB thorough): G-json texts (all palettes, random whitespace/escape forms), 1-3 near-valid edits of them, scanner token soups (structurals, quotes, backslash runs, value chars, range-boundary bytes @ [ ` { / : * DEL and their high-bit twins), raw bytes, and chunk-boundary probes (a string / escape run / value / structural placed so its critical byte lands on offset B-1, B, B+1 for B a multiple of 16); every body is indexed at an alignment sweep of 0..63 prepended spaces (all 64 when len<=768, 8 sampled otherwise). Non-trivial: len>=32 and the scanner state entering some offset that is a multiple of 16 is InString, InEscape or InValue (harness state tracer, classification only); distinct by hash(body).";

fn has_avx2() -> bool {
    std::arch::is_x86_feature_detected!("avx2")
}

// ---------------------------------------------------------------- classification tracer
// Harness-side state tracer written from the module docs of standard.rs; used ONLY to
// classify cases (which state enters a chunk boundary). Not an oracle.
#[derive(Clone, Copy, PartialEq, Debug)]
enum TS {
    Json,
    Str,
    Esc,
    Val,
}

fn trace_boundaries(b: &[u8]) -> [[bool; 4]; 3] {
    // [modulus 16/32/64][state] = some boundary offset (multiple of modulus, > 0) is entered in that state
    let mut seen = [[false; 4]; 3];
    let mut s = TS::Json;
    for (i, &c) in b.iter().enumerate() {
        if i > 0 && i % 16 == 0 {
            let si = s as usize;
            seen[0][si] = true;
            if i % 32 == 0 {
                seen[1][si] = true;
            }
            if i % 64 == 0 {
                seen[2][si] = true;
            }
        }
        s = match s {
            TS::Json | TS::Val => {
                if matches!(c, b'{' | b'}' | b'[' | b']' | b',' | b':') {
                    TS::Json
                } else if c.is_ascii_alphanumeric() || matches!(c, b'.' | b'-' | b'+') {
                    TS::Val
                } else if c == b'"' && s == TS::Json {
                    TS::Str
                } else {
                    TS::Json
                }
            }
            TS::Str => {
                if c == b'"' {
                    TS::Json
                } else if c == b'\\' {
                    TS::Esc
                } else {
                    TS::Str
                }
            }
            TS::Esc => TS::Str,
        };
    }
    seen
}

// ---------------------------------------------------------------- comparison

fn first_diff(a: &[u64], b: &[u64]) -> Value {
    if a.len() != b.len() {
        return json!({"len_expected": a.len(), "len_actual": b.len()});
    }
    for (i, (x, y)) in a.iter().zip(b.iter()).enumerate() {
        if x != y {
            return json!({"word": i, "expected": format!("{:016x}", x), "actual": format!("{:016x}", y), "first_bit": i * 64 + (x ^ y).trailing_zeros() as usize});
        }
    }
    Value::Null
}

fn info(x: &[u8], k: usize, body_len: usize) -> Value {
    json!({"prefix_spaces": k, "body_len": body_len, "len": x.len(), "input_hex": hex(&x[..x.len().min(4096)]), "input": show_bytes(x)})
}

fn bit(words: &[u64], i: usize) -> bool {
    words.get(i / 64).map_or(false, |w| (w >> (i % 64)) & 1 == 1)
}

/// Run every engine on `x`; Err on the first disagreement with the reference.
pub fn compare_all(x: &[u8], k: usize, body_len: usize, st: &mut Stats) -> Result<u64, Fail> {
    let avx2 = has_avx2();
    // ---- standard cursor
    let r = standard::build_semi_index_scalar(x);
    let mut digest = hash_words(&r.ib) ^ hash_words(&r.bp).rotate_left(7) ^ (r.state as u64);
    {
        let mut routes: Vec<(&str, standard::SemiIndex)> = vec![
            ("pfsm", standard::build_semi_index(x)),
            ("sse2", simd::x86::build_semi_index_standard(x)),
        ];
        if avx2 {
            routes.push(("avx2", simd::avx2::build_semi_index_standard(x)));
        }
        routes.push(("dispatch", simd::build_semi_index_standard(x)));
        for (name, s) in &routes {
            if s.ib != r.ib {
                fail!(format!("C05/standard/{}/ib", name), {"diff": first_diff(&r.ib, &s.ib), "case": info(x, k, body_len)});
            }
            if s.bp != r.bp {
                fail!(format!("C05/standard/{}/bp", name), {"diff": first_diff(&r.bp, &s.bp), "case": info(x, k, body_len)});
            }
            if s.state != r.state {
                fail!(format!("C05/standard/{}/state", name), {"expected": format!("{:?}", r.state), "actual": format!("{:?}", s.state), "case": info(x, k, body_len)});
            }
        }
        st.evals(routes.len() as u64);
        // library constructor: the index it holds is the reference index
        let idx = JsonIndex::build(x);
        if idx.ib() != &r.ib[..] {
            fail!("C05/standard/JsonIndex::build/ib", {"diff": first_diff(&r.ib, idx.ib()), "case": info(x, k, body_len)});
        }
        check_eq!("C05/standard/JsonIndex::build/ib_len", x.len(), idx.ib_len(), {"case": info(x, k, body_len)});
        // bp: the library keeps `bp().len()` bits; those bits are the reference's bits.
        // `JsonIndex::build` estimates the length as 2 x (number of 1 bits), which is exact
        // for balanced input; on unbalanced input (more opens than closes) the estimate can
        // exceed the words that exist, and `BalancedParens::new` then masks the last word
        // with `len % 64` — outside what C05 states, so the bits are only compared when the
        // estimated length fits the storage.
        let n = idx.bp().len();
        if n <= r.bp.len() * 64 {
            let w = idx.bp().words();
            for i in 0..n {
                if bit(w, i) != bit(&r.bp, i) {
                    fail!("C05/standard/JsonIndex::build/bp", {"bit": i, "bp_len": idx.bp().len(), "case": info(x, k, body_len)});
                }
            }
        } else if k == 0 {
            st.class("JsonIndex-bp-len-estimate-exceeds-storage(bp-bits-not-compared)");
        }
        st.evals(1);
    }
    // ---- simple cursor
    let r = simple::build_semi_index(x);
    digest ^= hash_words(&r.ib).rotate_left(13) ^ hash_words(&r.bp).rotate_left(29) ^ ((r.state as u64) << 8);
    {
        let mut routes: Vec<(&str, simple::SemiIndex)> = vec![
            ("sse2", simd::x86::build_semi_index_simple(x)),
        ];
        if avx2 {
            routes.push(("avx2", simd::avx2::build_semi_index_simple(x)));
        }
        routes.push(("dispatch", simd::build_semi_index_simple(x)));
        for (name, s) in &routes {
            if s.ib != r.ib {
                fail!(format!("C05/simple/{}/ib", name), {"diff": first_diff(&r.ib, &s.ib), "case": info(x, k, body_len)});
            }
            if s.bp != r.bp {
                fail!(format!("C05/simple/{}/bp", name), {"diff": first_diff(&r.bp, &s.bp), "case": info(x, k, body_len)});
            }
            if s.state != r.state {
                fail!(format!("C05/simple/{}/state", name), {"expected": format!("{:?}", r.state), "actual": format!("{:?}", s.state), "case": info(x, k, body_len)});
            }
        }
        st.evals(routes.len() as u64);
        let idx = SimpleJsonIndex::build(x);
        if idx.ib() != &r.ib[..] {
            fail!("C05/simple/SimpleJsonIndex::build/ib", {"diff": first_diff(&r.ib, idx.ib()), "case": info(x, k, body_len)});
        }
        check_eq!("C05/simple/SimpleJsonIndex::build/ib_len", x.len(), idx.ib_len(), {"case": info(x, k, body_len)});
        // simple cursor: every structural byte writes exactly two bits, so 2 x popcount(ib) is exact
        let n = idx.bp().len();
        check_eq!("C05/simple/SimpleJsonIndex::build/bp_len", 2 * r.ib.iter().map(|w| w.count_ones() as usize).sum::<usize>(), n, {"case": info(x, k, body_len)});
        let w = idx.bp().words();
        for i in 0..n {
            if bit(w, i) != bit(&r.bp, i) {
                fail!("C05/simple/SimpleJsonIndex::build/bp", {"bit": i, "bp_len": idx.bp().len(), "case": info(x, k, body_len)});
            }
        }
        st.evals(1);
    }
    Ok(digest)
}

// ---------------------------------------------------------------- generation

pub struct Case {
    pub kind: &'static str,
    pub body: Vec<u8>,
    pub sweep: Vec<usize>,
}

/// A construct whose critical byte is placed at B-1 / B / B+1 for a chunk boundary B.
fn boundary_probe(u: &mut Src, max_len: usize) -> Vec<u8> {
    let max_b = (max_len / 16).max(2).min(40);
    let b = 16 * u.range(1, max_b);
    let delta = u.below(5) as isize - 2; // critical byte at B-2..B+2
    let construct: Vec<u8> = match u.below(12) {
        0 => {
            // string with an escaped quote: critical = the backslash
            let mut v = b"\"ab".to_vec();
            v.extend_from_slice(b"\\\"cd\"");
            v
        }
        1 => {
            // run of backslashes inside a string, odd or even
            let n = u.range(1, 9);
            let mut v = vec![b'"'];
            v.extend(std::iter::repeat(b'\\').take(n));
            v.extend_from_slice(b"\"x\"");
            v
        }
        2 => b"12345.5e-7".to_vec(),
        3 => b"true".to_vec(),
        4 => b"\"k\":1".to_vec(),
        5 => b"]}".to_vec(),
        6 => b"\"\"".to_vec(),
        7 => {
            // value chars next to range-boundary bytes
            let mut v = vec![];
            for _ in 0..u.range(2, 8) {
                v.push(*u.pick(jsonmut::BOUNDARY_BYTES));
            }
            v
        }
        8 => b"\\\"".to_vec(), // escape outside a string (InJson ignores the backslash)
        9 => {
            let mut v = b"\"".to_vec();
            v.extend_from_slice("é😀\u{2028}".as_bytes());
            v.extend_from_slice(b"\\u00e9\"");
            v
        }
        10 => b"[{\"a\":[]}]".to_vec(),
        _ => b"-0".to_vec(),
    };
    let crit = u.below(construct.len().max(1));
    // position of construct start so that construct[crit] sits at b + delta
    let start = (b as isize + delta - crit as isize).max(0) as usize;
    let mut v = Vec::with_capacity(start + construct.len() + 40);
    // filler before: whitespace, a long string, a long value, or structurals
    match u.below(5) {
        0 => v.resize(start, b' '),
        1 => {
            // an open string running up to the construct (construct bytes are then string content)
            if start > 0 {
                v.push(b'"');
                v.resize(start, b'x');
            }
        }
        2 => v.resize(start, b'7'),
        3 => {
            for i in 0..start {
                v.push(b"[,]"[i % 3]);
            }
        }
        _ => {
            // closed string then spaces
            if start >= 2 {
                v.push(b'"');
                v.resize(start - 1, b'y');
                v.push(b'"');
            } else {
                v.resize(start, b' ');
            }
        }
    }
    v.extend_from_slice(&construct);
    // tail
    match u.below(4) {
        0 => {}
        1 => v.extend_from_slice(b"\"tail\",1]"),
        2 => {
            let n = u.range(0, 40);
            v.extend(std::iter::repeat(*u.pick(b" x\\\"1")).take(n));
        }
        _ => v.extend_from_slice(&jsonmut::token_soup(u, 48, 1)),
    }
    v.truncate(max_len);
    v
}

pub fn gen_case(u: &mut Src, max_len: usize) -> Case {
    let (kind, mut body): (&'static str, Vec<u8>) = match u.weighted(&[4, 4, 5, 2, 4]) {
        0 | 1 => {
            let big = u.ratio(1, 5);
            let o = GenOpts {
                max_depth: u.range(1, 8),
                max_nodes: if big { u.range(60, 600) } else { u.range(1, 60) },
                dup_keys: true,
                strings: *u.pick(&[StrPalette::Full, StrPalette::Full, StrPalette::Ascii, StrPalette::AsciiPlain]),
                keys: *u.pick(&[KeyPalette::AsStrings, KeyPalette::Hostile, KeyPalette::Ident]),
                numbers: 2,
                max_str_len: *u.pick(&[4, 24, 24, 70]),
            };
            let (_, r) = jsonmut::gen_doc(u, &o);
            let mut t = r.text.clone();
            if u.ratio(1, 2) {
                let o2 = GenOpts { max_nodes: 12, ..o };
                let other = if u.ratio(1, 3) { Some(jsonmut::gen_doc(u, &o2).1.text) } else { None };
                let n = u.range(1, 3);
                for _ in 0..n {
                    jsonmut::mutate_once(u, &mut t, Some(&r), other.as_deref());
                }
                ("mutated", t)
            } else {
                ("valid", t)
            }
        }
        2 => ("token-soup", jsonmut::token_soup(u, max_len, 1)),
        3 => ("raw", jsonmut::raw_bytes(u, max_len)),
        _ => ("boundary-probe", boundary_probe(u, max_len.min(1024))),
    };
    body.truncate(max_len);
    let sweep: Vec<usize> = if body.len() <= 768 {
        (0..64).collect()
    } else {
        let mut v = vec![0usize];
        for _ in 0..7 {
            v.push(u.range(1, 63));
        }
        v
    };
    Case { kind, body, sweep }
}

fn classify(c: &Case, st: &mut Stats) {
    let b = &c.body;
    st.class(&format!("kind-{}", c.kind));
    let seen = trace_boundaries(b);
    let names = ["InJson", "InString", "InEscape", "InValue"];
    for (mi, m) in [16, 32, 64].iter().enumerate() {
        for s in 1..4 {
            st.class_if(seen[mi][s], &format!("carry-{}@{}", names[s], m));
        }
    }
    let nt = b.len() >= 32 && (1..4).any(|s| seen[0][s]);
    st.class_if(nt, "nontrivial");
    if nt {
        st.nontrivial(hash_bytes(b));
    }
    st.class_if(b.iter().any(|&x| x >= 0x80), "has-byte>=0x80");
    st.class_if(b.contains(&0), "has-NUL");
    st.class_if(b.windows(2).any(|w| w == b"\\\\"), "backslash-run>=2");
    st.class_if(b.len() % 32 != 0, "len%32!=0");
    st.class_if(b.len() % 16 == 0 && !b.is_empty(), "len%16==0");
    st.class_if(b.is_empty(), "empty");
    st.class_if(b.len() > 768, "len>768(sampled-sweep)");
    st.class_if(b.len() >= 4096, "len>=4096");
    st.size(b.len());
    st.sample(c.kind, || json!({"kind": c.kind, "len": b.len(), "text": show_bytes(&b[..b.len().min(160)])}));
}

fn check_case(c: &Case, st: &mut Stats) -> Result<(), Fail> {
    let mut d = 0u64;
    for &k in &c.sweep {
        let x = jsonmut::with_prefix(k, &c.body);
        d = d.wrapping_add(mix64(compare_all(&x, k, c.body.len(), st)? ^ k as u64));
    }
    st.digest(d);
    Ok(())
}

fn replay_input(v: &Value) -> Option<Fail> {
    let x = unhex(v["input"]["hex"].as_str().unwrap_or(""));
    let k = v["input"]["prefix_spaces"].as_u64().unwrap_or(0) as usize;
    let x = jsonmut::with_prefix(k, &x);
    let mut st = Stats::default();
    match catch(|| compare_all(&x, k, x.len() - k, &mut st)) {
        Ok(Ok(_)) => None,
        Ok(Err(f)) => Some(f),
        Err((loc, msg)) => Some(Fail::new(format!("panic@{}", panic_sig(&loc)), json!({"panic": msg, "location": loc}))),
    }
}

pub fn run(cx: &mut Ctx) {
    cx.assume("reference = succinctly::json::standard::build_semi_index_scalar / simple::build_semi_index (the statement's reference machines); C06/C07/C32 check them against span tables");
    cx.assume("AVX2 entry points are called only when is_x86_feature_detected!(\"avx2\")");
    cx.extra.insert("engines".into(), json!({"standard": ["scalar(ref)", "pfsm", "sse2", if has_avx2() { "avx2" } else { "avx2(absent)" }, "dispatch", "JsonIndex::build"], "simple": ["scalar(ref)", "sse2", if has_avx2() { "avx2" } else { "avx2(absent)" }, "dispatch", "SimpleJsonIndex::build"]}));
    if !has_avx2() {
        cx.note("host has no AVX2: the AVX2 routes were not exercised");
    }
    for (name, v) in cx.replays.clone() {
        if v["kind"] == "input" {
            let r = replay_input(&v);
            cx.replay_outcome(&name, r);
        }
    }
    let max_len = if cx.tier == Tier::Quick { 4096 } else { 65536 };
    cx.check(
        "engines-agree",
        RULE,
        Budget { quick: 60_000, thorough: 3_000_000, max_len: 6000 },
        |u, st| {
            // most cases stay <= 4 KiB even in thorough (the statement's range); 1 in 16 goes large
            let ml = if max_len > 4096 && u.ratio(1, 16) { max_len } else { 4096 };
            let c = gen_case(u, ml);
            classify(&c, st);
            st.describe(|| json!({"kind": c.kind, "body_hex": hex(&c.body[..c.body.len().min(8192)]), "body_len": c.body.len(), "sweep": c.sweep}));
            check_case(&c, st)
        },
    );
    for cl in [
        "kind-valid",
        "kind-mutated",
        "kind-token-soup",
        "kind-raw",
        "kind-boundary-probe",
        "carry-InString@16",
        "carry-InEscape@16",
        "carry-InValue@16",
        "carry-InString@32",
        "carry-InEscape@32",
        "carry-InValue@32",
        "carry-InEscape@64",
        "has-byte>=0x80",
        "backslash-run>=2",
        "len>768(sampled-sweep)",
    ] {
        cx.require_class("engines-agree", cl, 20);
    }

    // Every byte value in every scanner state, at every position of a 64-byte window
    // (complete family): context prefix puts the scanner in the state, the probe byte
    // sits at offset p, followed by a fixed tail that makes the consequences visible.
    cx.exhaustive(
        "every-byte-every-state-every-offset",
        "256 byte values x 4 entry states (InJson / InString / InEscape / InValue) x offsets 0..=65 x 3 tails; all engines vs reference",
        true,
        |shard, nshards, st| {
            let tails: [&[u8]; 3] = [b"", b"a\"b\\\"c\",[1]}", b"\\\\\" :x"];
            for v in 0..256usize {
                if v % nshards != shard {
                    continue;
                }
                for state in 0..4 {
                    for p in 0..=65usize {
                        for tail in tails {
                            // context of length p that ends in `state`
                            let mut x: Vec<u8> = Vec::with_capacity(p + 1 + tail.len());
                            match state {
                                0 => x.resize(p, b' '),
                                1 => {
                                    if p == 0 {
                                        continue;
                                    }
                                    x.push(b'"');
                                    x.resize(p, b's');
                                }
                                2 => {
                                    if p < 2 {
                                        continue;
                                    }
                                    x.push(b'"');
                                    x.resize(p - 1, b's');
                                    x.push(b'\\');
                                }
                                _ => {
                                    if p == 0 {
                                        continue;
                                    }
                                    x.resize(p, b'7');
                                }
                            }
                            x.push(v as u8);
                            x.extend_from_slice(tail);
                            st.cases += 1;
                            if p >= 31 {
                                st.nontrivial(hash_bytes(&x));
                            }
                            compare_all(&x, 0, x.len(), st)?;
                        }
                    }
                }
            }
            Ok(())
        },
    );
}
