//! C03 — Elias-Fano sequences answer exactly under any access history (DESIGN §4 C03).
//!
//! Oracle: the plain `Vec<u32>` the sequence was built from, and for cursors an
//! index into it clamped to `len` (saturating arithmetic). Histories are values
//! `(values, Vec<Op>)` interpreted step by step against the model; the observers
//! `current()/index()/is_exhausted()` are compared after every step.
use crate::engine::*;
use serde_json::{json, Value};
use succinctly::bits::{EliasFano, EliasFanoCursor};

pub const RULE: &str = "Non-decreasing Vec<u32> built by construction (classes: empty, single, all-equal, consecutive, dense-with-duplicates, sorted-random, small-deltas-with-huge-jumps, extremes 0/u32::MAX, segment mixtures, universe<=n, two clusters with a gap > 2^31; lengths biased to 255..257 and 511..513, <= 700 quick) x a history of 0..60 operations over up to 4 cursors: cursor(), cursor_from(i), advance_one, advance_by(k) (k in {0,1,2,63,64,65,len,len+1, to-last, to-end, across the 256-element sample, random, usize::MAX, usize::MAX-idx(+1)}), seek(i), clone, switch; after EVERY step the returned value and current()/index()/is_exhausted() of every live cursor are compared with an index into the plain Vec clamped to len. Static part: len, is_empty, universe (max+1, 0 when empty), get(i) for every i in 0..len+3 and huge i, predecessor(v) for v in {each element-1, element, element+1, 0, u32::MAX, random}, iteration order. Non-trivial: len >= 2 and >= 3 state-changing operations of >= 2 kinds; distinct by hash(values, ops).";

// ------------------------------------------------------------------ sequences

#[derive(Clone, Copy, Debug, PartialEq)]
pub enum SeqClass {
    Empty,
    Single,
    AllEqual,
    Consecutive,
    DenseDup,
    SortedRandom,
    Jumps,
    Extremes,
    Segments,
    SmallUniverse,
    TwoClusters,
}

const LEN_BOUNDS: &[usize] = &[1, 2, 64, 255, 256, 257, 511, 512, 513];

fn push_clamped(v: &mut Vec<u32>, acc: &mut u64, delta: u64) {
    *acc = (*acc).saturating_add(delta).min(u32::MAX as u64);
    v.push(*acc as u32);
}

/// A non-decreasing sequence, by construction (running sum clamped at u32::MAX
/// or a sorted draw). `max_len` bounds the length.
pub fn gen_values(u: &mut Src, max_len: usize) -> (Vec<u32>, SeqClass) {
    let class = match u.weighted(&[1, 1, 2, 3, 4, 4, 5, 3, 6, 3, 3]) {
        0 => SeqClass::Empty,
        1 => SeqClass::Single,
        2 => SeqClass::AllEqual,
        3 => SeqClass::Consecutive,
        4 => SeqClass::DenseDup,
        5 => SeqClass::SortedRandom,
        6 => SeqClass::Jumps,
        7 => SeqClass::Extremes,
        8 => SeqClass::Segments,
        9 => SeqClass::SmallUniverse,
        _ => SeqClass::TwoClusters,
    };
    let n = u.len_biased(max_len, LEN_BOUNDS).max(2).min(max_len.max(2));
    let edge = |u: &mut Src| -> u32 {
        match u.below(6) {
            0 => 0,
            1 => 1,
            2 => u32::MAX,
            3 => u32::MAX - 1,
            4 => 1 << 31,
            _ => u.u32(),
        }
    };
    let mut v: Vec<u32> = Vec::with_capacity(n);
    match class {
        SeqClass::Empty => {}
        SeqClass::Single => v.push(edge(u)),
        SeqClass::AllEqual => {
            let x = edge(u);
            v.resize(n, x);
        }
        SeqClass::Consecutive => {
            let start: u64 = match u.below(3) {
                0 => 0,
                1 => (u32::MAX as u64 + 1) - n as u64, // ends exactly at u32::MAX
                _ => u.u32() as u64,
            };
            for i in 0..n as u64 {
                v.push((start + i).min(u32::MAX as u64) as u32);
            }
        }
        SeqClass::DenseDup => {
            let mut acc = if u.bool() { 0 } else { u.u32() as u64 };
            v.push(acc as u32);
            while v.len() < n {
                let d = *u.pick(&[0u64, 0, 1, 1, 2, 3]);
                push_clamped(&mut v, &mut acc, d);
            }
        }
        SeqClass::SortedRandom => {
            let n = n.min(700);
            let shift = *u.pick(&[0u32, 0, 8, 16, 24]);
            for _ in 0..n {
                v.push(u.u32() >> shift);
            }
            v.sort_unstable();
        }
        SeqClass::Jumps => {
            let mut acc = if u.bool() { 0 } else { u.u16() as u64 };
            v.push(acc as u32);
            let small = *u.pick(&[1usize, 3, 16, 300]);
            while v.len() < n {
                let d = if u.ratio(1, 12) {
                    match u.below(3) {
                        0 => u.u32() as u64,
                        1 => (1u64 << 31) + u.u16() as u64,
                        _ => 1u64 << u.range(8, 31),
                    }
                } else {
                    u.below(small + 1) as u64
                };
                push_clamped(&mut v, &mut acc, d);
            }
        }
        SeqClass::Extremes => {
            let a = u.range(0, n);
            let b = u.range(0, n - a);
            let mid = u.u32();
            for i in 0..n {
                v.push(if i < a { 0 } else if i < a + b { mid } else { u32::MAX });
            }
        }
        SeqClass::Segments => {
            let mut acc = if u.bool() { 0 } else { u.u32() as u64 >> u.below(32) };
            v.push(acc as u32);
            while v.len() < n {
                let l = u.range(1, 300).min(n - v.len());
                let (step, jit): (u64, u64) = match u.below(6) {
                    0 => (0, 0),
                    1 => (1, 0),
                    2 => (u.range(2, 1000) as u64, 0),
                    3 => (1u64 << u.range(10, 26), 0),
                    4 => (0, u.range(1, 9) as u64),
                    _ => (u.range(0, 70000) as u64, u.range(0, 5) as u64),
                };
                let lead = if u.ratio(1, 4) { (u.u32() as u64) >> u.below(20) } else { 0 };
                let salt = u.u32() as u64;
                for i in 0..l as u64 {
                    let j = if jit == 0 { 0 } else { mix64(salt ^ i) % (jit + 1) };
                    push_clamped(&mut v, &mut acc, step + j + if i == 0 { lead } else { 0 });
                }
            }
        }
        SeqClass::SmallUniverse => {
            // universe <= n: the low-bit width is 0
            let top = (n / u.range(1, 4)).max(1) as u64;
            let salt = u.u32() as u64;
            for i in 0..n as u64 {
                v.push((mix64(salt ^ i) % top) as u32);
            }
            v.sort_unstable();
        }
        SeqClass::TwoClusters => {
            let a = u.range(1, n - 1);
            let mut acc = u.below(3) as u64;
            v.push(acc as u32);
            while v.len() < a {
                let d = u.below(4) as u64;
                push_clamped(&mut v, &mut acc, d);
            }
            let hi_start = (u32::MAX as u64) - (u.below(5) as u64) * (n - a) as u64;
            acc = acc.max(hi_start.saturating_sub(u.below(1000) as u64));
            while v.len() < n {
                v.push(acc as u32);
                acc = acc.saturating_add(u.below(3) as u64).min(u32::MAX as u64);
            }
        }
    }
    (v, class)
}

// ------------------------------------------------------------------ histories

#[derive(Clone, Copy, Debug, PartialEq)]
pub enum Op {
    /// replace the active cursor by `ef.cursor()`
    Cursor,
    /// replace the active cursor by `ef.cursor_from(i)`
    CursorFrom(usize),
    AdvanceOne,
    AdvanceBy(usize),
    Seek(usize),
    /// clone the active cursor into a new slot and make the clone active
    Clone,
    /// make slot `j % live` active
    Switch(usize),
}

impl Op {
    fn to_json(self) -> Value {
        match self {
            Op::Cursor => json!(["cursor"]),
            Op::CursorFrom(i) => json!(["cursor_from", i]),
            Op::AdvanceOne => json!(["advance_one"]),
            Op::AdvanceBy(k) => json!(["advance_by", k]),
            Op::Seek(i) => json!(["seek", i]),
            Op::Clone => json!(["clone"]),
            Op::Switch(j) => json!(["switch", j]),
        }
    }
    fn from_json(v: &Value) -> Option<Op> {
        let name = v.get(0)?.as_str()?;
        let arg = || v.get(1).and_then(|x| x.as_u64()).map(|x| x as usize);
        Some(match name {
            "cursor" => Op::Cursor,
            "cursor_from" => Op::CursorFrom(arg()?),
            "advance_one" => Op::AdvanceOne,
            "advance_by" => Op::AdvanceBy(arg()?),
            "seek" => Op::Seek(arg()?),
            "clone" => Op::Clone,
            "switch" => Op::Switch(arg()?),
            _ => return None,
        })
    }
    fn kind(self) -> u8 {
        match self {
            Op::Cursor => 0,
            Op::CursorFrom(_) => 1,
            Op::AdvanceOne => 2,
            Op::AdvanceBy(_) => 3,
            Op::Seek(_) => 4,
            Op::Clone => 5,
            Op::Switch(_) => 6,
        }
    }
    fn mutating(self) -> bool {
        !matches!(self, Op::Clone | Op::Switch(_))
    }
}

const MAX_CURSORS: usize = 4;

fn index_choice(u: &mut Src, len: usize) -> usize {
    match u.below(10) {
        0 => 0,
        1 => len,
        2 => len + 1,
        3 => len.saturating_sub(1),
        4 => *u.pick(&[255usize, 256, 257, 511, 512, 513, 64, 63, 65]),
        5 => *u.pick(&[usize::MAX, usize::MAX - 1, 1 << 32, (1 << 32) + 1, u32::MAX as usize]),
        _ => u.range(0, len),
    }
}

/// The generator tracks the model index of every live cursor so that it can aim
/// `advance_by` at the interesting targets (last element, exactly the end, the
/// 256-element sample boundary, the usize overflow boundary).
pub fn gen_ops(u: &mut Src, len: usize, max_ops: usize) -> Vec<Op> {
    let n = u.range(0, max_ops);
    let mut ops = Vec::with_capacity(n);
    let mut idx: Vec<usize> = vec![0];
    let mut act = 0usize;
    for _ in 0..n {
        let cur = idx[act];
        let op = match u.weighted(&[1, 3, 8, 10, 5, 2, 2]) {
            0 => Op::Cursor,
            1 => Op::CursorFrom(index_choice(u, len)),
            2 => Op::AdvanceOne,
            3 => {
                let k = match u.below(16) {
                    0 => 0,
                    1 => 1,
                    2 => 2,
                    3 => *u.pick(&[63usize, 64, 65, 66]),
                    4 => len,
                    5 => len + 1,
                    6 => len.saturating_sub(cur + 1), // lands on the last element
                    7 => len.saturating_sub(cur),     // lands exactly on the end
                    8 => (256usize * u.range(1, 3)).saturating_sub(cur) + u.below(3), // sample boundary
                    9 => u.range(65, len.max(66)),                                   // seek path
                    // the overflowing shapes are an open known finding: kept rare so that
                    // most histories run to their end (the engine counts the excluded ones)
                    10 => match u.below(16) {
                        0 => (usize::MAX - cur).saturating_add(1), // first overflowing k (when idx >= 1)
                        1 => usize::MAX,
                        2 => usize::MAX - u.below(3),
                        _ => usize::MAX - cur - u.below(2), // idx + k == usize::MAX (or one less): no overflow
                    },
                    11 | 12 => u.range(2, 64),
                    _ => u.range(0, len.saturating_sub(cur).max(3)),
                };
                Op::AdvanceBy(k)
            }
            4 => Op::Seek(index_choice(u, len)),
            5 => Op::Clone,
            _ => Op::Switch(u.below(MAX_CURSORS)),
        };
        // keep the generator's shadow indices in step (same arithmetic as the model)
        match op {
            Op::Cursor => idx[act] = 0,
            Op::CursorFrom(i) | Op::Seek(i) => idx[act] = i.min(len),
            Op::AdvanceOne => idx[act] = cur.saturating_add(1).min(len),
            Op::AdvanceBy(k) => idx[act] = cur.saturating_add(k).min(len),
            Op::Clone => {
                if idx.len() < MAX_CURSORS {
                    idx.push(cur);
                    act = idx.len() - 1;
                }
            }
            Op::Switch(j) => act = j % idx.len(),
        }
        ops.push(op);
    }
    ops
}

/// Signature of the known finding: `advance_by(k)` with `idx + k` overflowing
/// usize panics on the addition (harness builds have overflow checks on).
pub const SIG_ADVANCE_OVERFLOW: &str = "C03/cursor/advance_by/idx+k-overflows-usize/panic-add-overflow";

pub struct HistSummary {
    pub mutating: usize,
    pub kinds: u8,
    pub crossed_sample: bool,
    pub seek_path: bool,
    pub after_exhaustion: bool,
    pub same_word_skip: bool,
}

fn observers(
    values: &[u32],
    cur: &EliasFanoCursor<'_>,
    m: usize,
    step: usize,
    what: &str,
    ctx: &dyn Fn() -> Value,
) -> Result<(), Fail> {
    let len = values.len();
    let info = |obs: &str| json!({"step": step, "after": what, "observer": obs, "model_index": m, "case": ctx()});
    check_eq!("C03/cursor/current", values.get(m).copied(), cur.current(), info("current"));
    check_eq!("C03/cursor/index", m, cur.index(), info("index"));
    check_eq!("C03/cursor/is_exhausted", m >= len, cur.is_exhausted(), info("is_exhausted"));
    Ok(())
}

/// Interpret `ops` against the real cursors and the model side by side.
pub fn run_history(values: &[u32], ef: &EliasFano, ops: &[Op], st: &mut Stats) -> Result<HistSummary, Fail> {
    let len = values.len();
    let ctx = || json!({"values": render_values(values), "ops": ops.iter().map(|o| o.to_json()).collect::<Vec<_>>()});
    let mut cursors: Vec<(EliasFanoCursor<'_>, usize)> = vec![(ef.cursor(), 0)];
    let mut act = 0usize;
    let mut sum = HistSummary { mutating: 0, kinds: 0, crossed_sample: false, seek_path: false, after_exhaustion: false, same_word_skip: false };
    observers(values, &cursors[0].0, 0, 0, "cursor()", &ctx)?;
    for (step, &op) in ops.iter().enumerate() {
        let step = step + 1;
        let before = cursors[act].1;
        let what = format!("{:?}", op);
        let mut returned: Option<(Option<u32>, Option<u32>)> = None; // (expected, actual)
        match op {
            Op::Cursor => cursors[act] = (ef.cursor(), 0),
            Op::CursorFrom(i) => cursors[act] = (ef.cursor_from(i), i.min(len)),
            Op::AdvanceOne => {
                let m = before.saturating_add(1).min(len);
                let r = cursors[act].0.advance_one();
                cursors[act].1 = m;
                returned = Some((values.get(m).copied(), r));
            }
            Op::AdvanceBy(k) => {
                let m = before.saturating_add(k).min(len);
                let r = if before.checked_add(k).is_none() {
                    // trigger predicate of the known finding: idx + k overflows usize
                    st.class("advance_by-overflowing-k");
                    let c = &mut cursors[act].0;
                    match catch(|| c.advance_by(k)) {
                        Ok(r) => r,
                        Err((loc, msg)) => {
                            let sig = if msg.contains("overflow") && loc.contains("elias_fano.rs") {
                                SIG_ADVANCE_OVERFLOW.to_string()
                            } else {
                                format!("C03/cursor/advance_by/panic@{}", panic_sig(&loc))
                            };
                            return Err(Fail::new(
                                sig,
                                json!({"step": step, "op": what, "index_before": before, "k": k, "expected": format!("cursor exhausted: returns None, index() == len == {}", len), "actual": format!("panic: {} at {}", msg, loc), "case": ctx()}),
                            ));
                        }
                    }
                } else {
                    cursors[act].0.advance_by(k)
                };
                cursors[act].1 = m;
                returned = Some((values.get(m).copied(), r));
                if k > 64 && m < len {
                    sum.seek_path = true;
                }
                if (2..=64).contains(&k) && m < len {
                    sum.same_word_skip = true;
                }
            }
            Op::Seek(i) => {
                let m = i.min(len);
                let r = cursors[act].0.seek(i);
                cursors[act].1 = m;
                returned = Some((values.get(m).copied(), r));
            }
            Op::Clone => {
                if cursors.len() < MAX_CURSORS {
                    let c = cursors[act].clone();
                    cursors.push(c);
                    act = cursors.len() - 1;
                }
            }
            Op::Switch(j) => act = j % cursors.len(),
        }
        if let Some((e, a)) = returned {
            check_eq!(format!("C03/cursor/{}/returned", op_name(op)), e, a, {"step": step, "op": what, "index_before": before, "case": ctx()});
            st.evals(1);
        }
        if op.mutating() {
            sum.mutating += 1;
            sum.kinds |= 1 << op.kind();
            let after = cursors[act].1;
            if before >= len {
                sum.after_exhaustion = true;
            }
            if before / 256 != after / 256 && after < len {
                sum.crossed_sample = true;
            }
        }
        // every live cursor must be where the model says (a clone is independent)
        for (c, m) in &cursors {
            observers(values, c, *m, step, &what, &ctx)?;
        }
        st.evals(3 * cursors.len() as u64);
    }
    Ok(sum)
}

fn op_name(op: Op) -> &'static str {
    match op {
        Op::Cursor => "cursor",
        Op::CursorFrom(_) => "cursor_from",
        Op::AdvanceOne => "advance_one",
        Op::AdvanceBy(_) => "advance_by",
        Op::Seek(_) => "seek",
        Op::Clone => "clone",
        Op::Switch(_) => "switch",
    }
}

fn render_values(values: &[u32]) -> Value {
    if values.len() <= 1200 {
        json!(values)
    } else {
        json!({"len": values.len(), "first": &values[..300], "last": &values[values.len() - 300..], "hash": format!("{:016x}", hash_u32s(values))})
    }
}

fn hash_u32s(v: &[u32]) -> u64 {
    let mut h = 0x51ed_27a1_9e37_79b9u64 ^ v.len() as u64;
    for &x in v {
        h = mix64(h ^ x as u64);
    }
    h
}

// ------------------------------------------------------------------ static queries

pub fn check_static(values: &[u32], ef: &EliasFano, u: &mut Src, st: &mut Stats, full: bool) -> Result<(), Fail> {
    let len = values.len();
    let ctx = || json!({"values": render_values(values)});
    check_eq!("C03/len", len, ef.len(), {"case": ctx()});
    check_eq!("C03/is_empty", len == 0, ef.is_empty(), {"case": ctx()});
    let universe = values.last().map(|&m| m as u64 + 1).unwrap_or(0);
    check_eq!("C03/universe", universe, ef.universe(), {"case": ctx()});
    st.evals(3);
    // get
    let mut gi: Vec<usize> = if full || len <= 2000 {
        (0..len + 3).collect()
    } else {
        let mut v: Vec<usize> = (0..600).map(|_| u.range(0, len - 1)).collect();
        let mut b = 0;
        while b <= len + 256 {
            v.extend([b.saturating_sub(1), b, b + 1]);
            b += 256 * (len / 256 / 200).max(1);
        }
        v.extend([0, 1, len - 1, len, len + 1]);
        let s = u.range(0, len - 1);
        v.extend(s..(s + 300).min(len));
        v
    };
    gi.extend([usize::MAX, usize::MAX - 1, 1 << 32, (1 << 32) + 1]);
    for &i in &gi {
        check_eq!("C03/get", values.get(i).copied(), ef.get(i), {"i": i, "case": ctx()});
    }
    st.evals(gi.len() as u64);
    // predecessor: last index holding the largest element <= v
    let mut qs: Vec<u32> = vec![0, 1, u32::MAX, u32::MAX - 1, 1 << 31];
    let picks: Vec<usize> = if len <= 400 { (0..len).collect() } else { (0..400).map(|_| u.range(0, len - 1)).collect() };
    for &i in &picks {
        let x = values[i];
        qs.extend([x.wrapping_sub(1), x, x.wrapping_add(1)]);
    }
    for _ in 0..16 {
        qs.push(u.u32());
    }
    for &q in &qs {
        let pp = values.partition_point(|&x| x <= q);
        let e = if pp == 0 { None } else { Some((pp - 1, values[pp - 1])) };
        check_eq!("C03/predecessor", e, ef.predecessor(q), {"v": q, "case": ctx()});
    }
    st.evals(qs.len() as u64);
    // iteration order
    let mut it = ef.into_iter();
    for (i, &x) in values.iter().enumerate() {
        let got = it.next();
        if got != Some(x) {
            fail!("C03/iter/order", {"i": i, "expected": x, "actual": format!("{:?}", got), "case": ctx()});
        }
    }
    let tail = it.next();
    if tail.is_some() {
        fail!("C03/iter/extra-element", {"actual": format!("{:?}", tail), "case": ctx()});
    }
    st.evals(len as u64 + 1);
    Ok(())
}

fn classify_values(values: &[u32], class: SeqClass, st: &mut Stats) {
    let len = values.len();
    st.size(len);
    st.class(&format!("seq-{:?}", class));
    st.class_if(values.windows(2).any(|w| w[0] == w[1]), "duplicates");
    st.class_if(values.windows(2).any(|w| w[1] - w[0] > 1 << 31), "gap>2^31");
    st.class_if(values.first() == Some(&0), "starts-at-0");
    st.class_if(values.last() == Some(&u32::MAX), "ends-at-u32::MAX");
    st.class_if(len > 256, "len>256");
    st.class_if(len > 512, "len>512");
    st.class_if((255..=257).contains(&len) || (511..=513).contains(&len), "len-at-sample-boundary");
    st.class_if(len > 0 && values[len - 1] as u64 + 1 <= len as u64, "universe<=len(low_width=0)");
}

// ------------------------------------------------------------------ replays

fn replay_input(v: &Value) -> Option<Fail> {
    let input = &v["input"];
    let values: Vec<u32> = input["values"].as_array()?.iter().filter_map(|x| x.as_u64()).map(|x| x as u32).collect();
    let ops: Vec<Op> = input["ops"].as_array().map(|a| a.iter().filter_map(Op::from_json).collect()).unwrap_or_default();
    if values.windows(2).any(|w| w[0] > w[1]) {
        return Some(Fail::new("C03/replay/not-monotone", json!({"note": "replay input is not non-decreasing"})));
    }
    let mut st = Stats::default();
    let r = catch(|| {
        let ef = EliasFano::build(&values);
        let mut empty = Src::new(&[]);
        check_static(&values, &ef, &mut empty, &mut st, true)?;
        run_history(&values, &ef, &ops, &mut st).map(|_| ())
    });
    match r {
        Ok(Ok(())) => None,
        Ok(Err(f)) => Some(f),
        Err((loc, msg)) => Some(Fail::new(format!("panic@{}", panic_sig(&loc)), json!({"panic": msg, "location": loc}))),
    }
}

// ------------------------------------------------------------------ run

fn history_case(u: &mut Src, st: &mut Stats, max_len: usize, max_ops: usize, long: bool) -> Result<(), Fail> {
    let (values, class) = if long { gen_long_values(u, max_len) } else { gen_values(u, max_len) };
    let ops = gen_ops(u, values.len(), max_ops);
    classify_values(&values, class, st);
    st.describe(|| json!({"values": render_values(&values), "class": format!("{:?}", class), "ops": ops.iter().map(|o| o.to_json()).collect::<Vec<_>>()}));
    let ef = EliasFano::build(&values);
    // light static part (the dedicated sub-check does the heavy one)
    check_eq!("C03/len", values.len(), ef.len(), {"values": render_values(&values)});
    let sum = run_history(&values, &ef, &ops, st)?;
    let nt = values.len() >= 2 && sum.mutating >= 3 && sum.kinds.count_ones() >= 2;
    if nt {
        st.class("nontrivial");
        let mut h = hash_u32s(&values);
        for o in &ops {
            h = mix64(h ^ hash_str(&format!("{:?}", o)));
        }
        st.nontrivial(h);
    }
    st.class_if(sum.crossed_sample, "crosses-256-sample-boundary");
    st.class_if(sum.seek_path, "advance_by>64(seek-path)");
    st.class_if(sum.same_word_skip, "advance_by-2..=64(scan-path)");
    st.class_if(sum.after_exhaustion, "op-after-exhaustion");
    st.class_if(ops.iter().any(|o| matches!(o, Op::Clone)), "has-clone");
    st.class_if(ops.len() >= 30, "ops>=30");
    let cls = if sum.crossed_sample { "crosses-sample" } else if sum.after_exhaustion { "after-exhaustion" } else { "plain" };
    st.sample(cls, || json!({"len": values.len(), "class": format!("{:?}", class), "first_values": values.iter().take(6).collect::<Vec<_>>(), "ops": ops.iter().take(12).map(|o| o.to_json()).collect::<Vec<_>>(), "n_ops": ops.len()}));
    Ok(())
}

/// Thorough tier: sequences of up to `max_len` elements expanded from little
/// entropy (segments whose per-element deltas are a fixed function of drawn
/// parameters).
fn gen_long_values(u: &mut Src, max_len: usize) -> (Vec<u32>, SeqClass) {
    let n = u.range(1000, max_len);
    let mut v = Vec::with_capacity(n);
    // scale steps so the sequence tends to span a drawn fraction of the u32 range
    let span: u64 = match u.below(4) {
        0 => n as u64 / 2,
        1 => n as u64 * 3,
        2 => 1u64 << u.range(20, 32),
        _ => u32::MAX as u64,
    };
    let avg = (span / n as u64).max(1);
    let mut acc: u64 = if u.bool() { 0 } else { u.below(1000) as u64 };
    v.push(acc as u32);
    while v.len() < n {
        let l = u.range(1, 5000).min(n - v.len());
        let salt = u.u64();
        let mode = u.below(6);
        let jump = if u.ratio(1, 6) { (u.u32() as u64) >> u.below(16) } else { 0 };
        for i in 0..l as u64 {
            let r = mix64(salt ^ i);
            let d = match mode {
                0 => 0,
                1 => 1,
                2 => avg,
                3 => r % (2 * avg + 1),
                4 => if r % 64 == 0 { avg * 64 } else { 0 },
                _ => r % 3,
            };
            push_clamped(&mut v, &mut acc, d + if i == 0 { jump } else { 0 });
        }
    }
    (v, SeqClass::Segments)
}

pub fn run(cx: &mut Ctx) {
    cx.assume("reference model: the plain Vec<u32> and, for cursors, an index clamped to len with saturating arithmetic (harness code; std binary search for predecessor)");
    cx.assume("EliasFano::build is only called on non-decreasing input (anything else is a documented panic)");
    for (name, v) in cx.replays.clone() {
        if v["kind"] == "input" {
            let r = replay_input(&v);
            cx.replay_outcome(&name, r);
        }
    }
    let quick = cx.tier == Tier::Quick;
    let max_len = if quick { 700 } else { 3000 };

    cx.check(
        "cursor-history",
        RULE,
        Budget { quick: 1_000_000, thorough: 15_000_000, max_len: 4500 },
        |u, st| history_case(u, st, max_len, 60, false),
    );
    for cl in [
        "nontrivial",
        "crosses-256-sample-boundary",
        "advance_by>64(seek-path)",
        "advance_by-2..=64(scan-path)",
        "op-after-exhaustion",
        "duplicates",
        "gap>2^31",
        "len-at-sample-boundary",
        "universe<=len(low_width=0)",
        "has-clone",
    ] {
        cx.require_class("cursor-history", cl, 50);
    }

    cx.check(
        "static-queries",
        "same sequence generator; len, is_empty, universe, get(i) for every i in 0..len+3 and huge i, predecessor(v) for v around every (or 400 sampled) element plus 0, u32::MAX, 2^31 and random v, iteration order and termination; all against the plain Vec. Non-trivial: len >= 2.",
        Budget { quick: 300_000, thorough: 3_000_000, max_len: 4500 },
        |u, st| {
            let (values, class) = gen_values(u, max_len);
            classify_values(&values, class, st);
            st.describe(|| json!({"values": render_values(&values), "class": format!("{:?}", class)}));
            if values.len() >= 2 {
                st.class("nontrivial");
                st.nontrivial(hash_u32s(&values));
            }
            st.sample(&format!("{:?}", class), || json!({"len": values.len(), "first_values": values.iter().take(8).collect::<Vec<_>>(), "last": values.last()}));
            let ef = EliasFano::build(&values);
            check_static(&values, &ef, u, st, true)
        },
    );
    for cl in ["nontrivial", "duplicates", "gap>2^31", "len>256", "len>512", "ends-at-u32::MAX", "starts-at-0", "universe<=len(low_width=0)", "seq-Empty", "seq-Single"] {
        cx.require_class("static-queries", cl, 20);
    }

    if !quick {
        cx.check(
            "long-sequences",
            "sequences of 1000..200000 elements expanded from segment parameters; sampled static queries (every 256-element sample boundary +-1, 600 random i, a dense window) and a history of up to 120 operations",
            Budget { quick: 0, thorough: 10_000, max_len: 6000 },
            |u, st| {
                let (values, class) = gen_long_values(u, 200_000);
                let ops = gen_ops(u, values.len(), 120);
                classify_values(&values, class, st);
                st.describe(|| json!({"values": render_values(&values), "ops": ops.iter().map(|o| o.to_json()).collect::<Vec<_>>()}));
                st.class("nontrivial");
                st.nontrivial(hash_u32s(&values));
                let ef = EliasFano::build(&values);
                check_static(&values, &ef, u, st, false)?;
                let sum = run_history(&values, &ef, &ops, st)?;
                st.class_if(sum.crossed_sample, "crosses-256-sample-boundary");
                st.class_if(sum.seek_path, "advance_by>64(seek-path)");
                st.class_if(values.len() > 100_000, "len>100000");
                Ok(())
            },
        );
        cx.require_class("long-sequences", "crosses-256-sample-boundary", 20);
    }
}
