//! C27 — query output does not depend on the evaluation route (DESIGN §4 C27).
//! Differential, black-box: the same (documents, program, output options) are run with
//! and without a semantically neutral switch that forces the materialised route, and
//! stdout + exit status must be byte-identical.
//!   jq: trailing comment `# input` (the runner abandons the lazy cursor path when the
//!       filter text contains "input"); `-a` on ASCII-only documents.
//!   yq: `--arg unused x` (any named variable disables M2/P9 streaming); `-P` where it
//!       is neutral (JSON output always; YAML output only for documents that carry no
//!       style to strip: block collections, plain scalars).
use crate::cli;
use crate::engine::*;
use crate::gen::json::{self as gj, GenOpts, KeyPalette, StrPalette, J};
use serde_json::{json, Value};

pub const RULE: &str = "jq: batches of 1..16 G-json documents (duplicate keys, all escapes, non-ASCII, every number shape) x navigation programs drawn from the documents' own keys/indices (identity, fields, indices, negative indices, iteration, slices, optional forms, pipes, first(.[]), select(. != null), keys_unsorted; some misses and type errors) x {default, -c}: lazy route vs `PROG # input` (materialised), and vs -a on ASCII-only documents. yq: block-YAML documents from a tiny renderer (plain [a-h]+ keys, ints/bools/null/plain or double-quoted strings, nested block maps/sequences, 1..3 documents per stream) and G-json documents given as JSON text (auto-detected as YAML flow style, `-p json`, or a .json file name; unique keys, ASCII strings) x comma-free navigation programs x {YAML, -o json, -o json -I 0}: streaming route vs `--arg unused x`, and vs -P where -P has nothing to strip. Oracle: byte-identical stdout and equal exit status. Non-trivial: non-identity program on a document with nesting >= 2; distinct by hash(input text, program, options).";

// ---------------------------------------------------------------- programs

#[derive(Clone, Debug)]
enum Step {
    Key(String),
    Idx(i64),
}

fn is_ident(k: &str) -> bool {
    let mut cs = k.chars();
    match cs.next() {
        Some(c) if c.is_ascii_lowercase() || c == '_' => {}
        _ => return false,
    }
    cs.all(|c| c.is_ascii_lowercase() || c.is_ascii_digit() || c == '_') && !gj::JQ_KEYWORDS.contains(&k)
}

fn path_text(steps: &[Step]) -> String {
    if steps.is_empty() {
        return ".".to_string();
    }
    let mut s = String::new();
    for (i, st) in steps.iter().enumerate() {
        match st {
            Step::Key(k) if is_ident(k) => {
                s.push('.');
                s.push_str(k);
            }
            Step::Key(k) => {
                if i == 0 {
                    s.push('.');
                }
                s.push('[');
                s.push_str(&gj::to_compact(&J::Str(k.clone())));
                s.push(']');
            }
            Step::Idx(n) => {
                if i == 0 {
                    s.push('.');
                }
                s.push_str(&format!("[{}]", n));
            }
        }
    }
    s
}

/// Walk into the document along existing children; returns the steps and the node reached.
fn pick_path<'a>(u: &mut Src, doc: &'a J, max_steps: usize) -> (Vec<Step>, &'a J) {
    let mut steps = vec![];
    let mut cur = doc;
    let n = u.range(0, max_steps);
    for _ in 0..n {
        match cur {
            J::Arr(a) if !a.is_empty() => {
                let i = u.below(a.len());
                // negative spelling of the same element now and then
                if u.ratio(1, 5) {
                    steps.push(Step::Idx(i as i64 - a.len() as i64));
                } else {
                    steps.push(Step::Idx(i as i64));
                }
                cur = &a[i];
            }
            J::Obj(f) if !f.is_empty() => {
                let i = u.below(f.len());
                steps.push(Step::Key(f[i].0.clone()));
                // duplicate keys: navigation reaches the last value
                cur = &f.iter().rev().find(|e| e.0 == f[i].0).unwrap().1;
            }
            _ => break,
        }
    }
    (steps, cur)
}

/// A navigation program over `doc`. `commas_ok` is false for yq (multi-result comma
/// programs are a documented presentation difference).
fn gen_program(u: &mut Src, doc: &J) -> (String, &'static str) {
    let (mut steps, mut target) = pick_path(u, doc, 4);
    // one draw in six is a slice program: steer the path to an array
    let want_slice = u.ratio(1, 6);
    if want_slice {
        for _ in 0..6 {
            if matches!(target, J::Arr(_)) {
                break;
            }
            let (s2, t2) = pick_path(u, doc, 4);
            steps = s2;
            target = t2;
        }
        if let J::Arr(a) = target {
            let p = path_text(&steps);
            let sub = |suffix: &str| if p == "." { format!(".{}", suffix) } else { format!("{}{}", p, suffix) };
            let len = a.len() as i64;
            let m = u.range_i64(-2, len + 1);
            let n = u.range_i64(-2, len + 2);
            return match u.below(3) {
                0 => (sub(&format!("[{}:{}]", m, n)), "slice"),
                1 => (sub(&format!("[{}:]", m)), "slice"),
                _ => (sub(&format!("[:{}]", n)), "slice"),
            };
        }
    }
    // sometimes miss: a key/index the document does not have
    if u.ratio(1, 10) {
        steps.push(if u.bool() { Step::Key("zz".into()) } else { Step::Idx(u.range(0, 40) as i64) });
        let p = path_text(&steps);
        return (if u.bool() { format!("{}?", p) } else { p }, "miss");
    }
    let p = path_text(&steps);
    let sub = |suffix: &str| -> String {
        if p == "." {
            format!(".{}", suffix)
        } else {
            format!("{}{}", p, suffix)
        }
    };
    match u.below(16) {
        0 => (".".to_string(), "identity"),
        1 | 2 => (p.clone(), if steps.is_empty() { "identity" } else { "path" }),
        3 | 6 => (sub("[]"), "iterate"),
        4 => (sub("[-1]"), "negative-index"),
        5 => {
            // slices only where the model says array (object slicing is a documented
            // materialising operation in yq) or on a miss
            if matches!(target, J::Arr(_)) {
                let len = if let J::Arr(a) = target { a.len() as i64 } else { 0 };
                let m = u.range_i64(-2, len + 1);
                let n = u.range_i64(-2, len + 2);
                match u.below(3) {
                    0 => (sub(&format!("[{}:{}]", m, n)), "slice"),
                    1 => (sub(&format!("[{}:]", m)), "slice"),
                    _ => (sub(&format!("[:{}]", n)), "slice"),
                }
            } else {
                (sub("[]?"), "optional")
            }
        }
        7 => {
            if u.bool() {
                (format!("{}?", if p == "." { ".zz".to_string() } else { format!("{}.zz", p) }), "optional")
            } else {
                (sub("[]?"), "optional")
            }
        }
        8 => (format!("first({})", sub("[]")), "first"),
        9 => (format!("{} | select(. != null)", p), "select"),
        10 => (format!("{} | select(. != null)", sub("[]")), "select"),
        11 => (format!("{} | keys_unsorted", p), "keys_unsorted"),
        12 => {
            // pipe chain: split the path in two
            if steps.len() >= 2 {
                let k = u.range(1, steps.len() - 1);
                (format!("{} | {}", path_text(&steps[..k]), path_text(&steps[k..])), "pipe")
            } else {
                (format!("{} | .", p), "pipe")
            }
        }
        13 => (format!("({})", p), "paren"),
        14 => (format!("{} | {}", sub("[]"), ".[0]?"), "pipe"),
        _ => (format!("last({})", sub("[]")), "first"),
    }
}

fn lossy(b: &[u8]) -> String {
    let s = String::from_utf8_lossy(b);
    if s.len() > 3000 {
        let mut cut = 3000;
        while !s.is_char_boundary(cut) {
            cut -= 1;
        }
        format!("{}…(+{} bytes)", &s[..cut], s.len() - cut)
    } else {
        s.to_string()
    }
}

// ---------------------------------------------------------------- difference classes

fn strip_doc_separators(b: &[u8]) -> Vec<u8> {
    let mut out = vec![];
    for line in b.split_inclusive(|&c| c == b'\n') {
        let l = line.strip_suffix(b"\n").unwrap_or(line);
        if l == b"---" {
            continue;
        }
        out.extend_from_slice(line);
    }
    out
}

fn strip_dquotes(b: &[u8]) -> Vec<u8> {
    b.iter().copied().filter(|&c| c != b'"' && c != b'\'').collect()
}

/// Equal when every maximal run of number characters is compared as a double.
fn equal_modulo_number_spelling(a: &[u8], b: &[u8]) -> bool {
    fn toks(x: &[u8]) -> Vec<(bool, &[u8])> {
        let isn = |c: u8| c.is_ascii_digit() || matches!(c, b'+' | b'-' | b'.' | b'e' | b'E');
        let mut v = vec![];
        let mut i = 0;
        while i < x.len() {
            let n = isn(x[i]);
            let mut j = i + 1;
            while j < x.len() && isn(x[j]) == n {
                j += 1;
            }
            v.push((n, &x[i..j]));
            i = j;
        }
        v
    }
    let (ta, tb) = (toks(a), toks(b));
    if ta.len() != tb.len() {
        return false;
    }
    let mut any = false;
    for (x, y) in ta.iter().zip(tb.iter()) {
        if x.1 == y.1 {
            continue;
        }
        if !(x.0 && y.0) {
            return false;
        }
        let (fx, fy) = (std::str::from_utf8(x.1).ok().and_then(|s| s.parse::<f64>().ok()), std::str::from_utf8(y.1).ok().and_then(|s| s.parse::<f64>().ok()));
        match (fx, fy) {
            (Some(p), Some(q)) if p == q => any = true,
            _ => return false,
        }
    }
    any
}

/// Narrow, stable description of how two stdouts differ.
fn diff_class(a: &[u8], b: &[u8]) -> &'static str {
    // jq mode: a raw DEL byte on one side, its \u007f escape on the other
    let del = |x: &[u8]| -> Vec<u8> {
        let mut o = Vec::with_capacity(x.len());
        for &c in x {
            if c == 0x7f {
                o.extend_from_slice(b"\\u007f");
            } else {
                o.push(c);
            }
        }
        o
    };
    if a.contains(&0x7f) != b.contains(&0x7f) && del(a) == del(b) {
        return "raw-DEL-vs-u007f-escape";
    }
    if strip_doc_separators(a) == strip_doc_separators(b) {
        return "document-separator-placement";
    }
    if strip_dquotes(a) == strip_dquotes(b) {
        return "scalar-quote-style";
    }
    if equal_modulo_number_spelling(a, b) {
        return "number-spelling";
    }
    if equal_modulo_number_spelling(&strip_dquotes(a), &strip_dquotes(b)) {
        return "scalar-quote-style+number-spelling";
    }
    let (sa, sb) = (strip_doc_separators(a), strip_doc_separators(b));
    if strip_dquotes(&sa) == strip_dquotes(&sb) {
        return "document-separator-placement+scalar-quote-style";
    }
    "other"
}

// ---------------------------------------------------------------- running

struct Variant {
    name: &'static str,
    args: Vec<String>,
}

enum Outcome {
    Pass,
    Inconclusive,
}

/// Run base and forced variants over one input; compare stdout and exit status.
fn compare(tool: &str, sigbase: &str, base: &Variant, forced: &[Variant], input: &[u8], file_name: &str, single_doc: bool) -> Result<Outcome, Fail> {
    let dir = cli::tmp_file("c27d");
    let _ = std::fs::create_dir_all(&dir);
    let path = dir.join(file_name);
    std::fs::write(&path, input).expect("write input");
    let p = path.to_string_lossy().to_string();
    let run = |v: &Variant| {
        let mut a: Vec<&str> = vec![tool];
        a.extend(v.args.iter().map(|s| s.as_str()));
        a.push(&p);
        cli::run(&a, None)
    };
    let b = run(base);
    let mut result = Ok(Outcome::Pass);
    if b.timed_out {
        result = Ok(Outcome::Inconclusive);
    } else if b.crashed() {
        result = Err(Fail::new(
            format!("{}/crash/{}", sigbase, base.name),
            json!({"what": "crash on the base route", "args": base.args, "exit": b.code, "signal": b.signal, "stderr": lossy(&b.stderr), "input": lossy(input)}),
        ));
    } else {
        for f in forced {
            let r = run(f);
            if r.timed_out {
                result = Ok(Outcome::Inconclusive);
                break;
            }
            let detail = |what: &str| {
                json!({
                    "what": what,
                    "tool": tool,
                    "base_args": base.args, "forced_args": f.args, "file_name": file_name,
                    "input": lossy(input),
                    "base": {"exit": b.code, "stdout": lossy(&b.stdout), "stderr": lossy(&b.stderr[..b.stderr.len().min(400)])},
                    "forced": {"exit": r.code, "signal": r.signal, "stdout": lossy(&r.stdout), "stderr": lossy(&r.stderr[..r.stderr.len().min(400)])},
                    "single_document": single_doc,
                })
            };
            if r.crashed() {
                result = Err(Fail::new(format!("{}/crash/{}", sigbase, f.name), detail("crash on the forced route")));
                break;
            }
            if r.code != b.code {
                result = Err(Fail::new(format!("{}/{}/exit-status-differs", sigbase, f.name), detail("exit status differs between the routes")));
                break;
            }
            if r.stdout != b.stdout {
                let cls = diff_class(&b.stdout, &r.stdout);
                result = Err(Fail::new(format!("{}/{}/stdout-differs/{}", sigbase, f.name, cls), detail("stdout differs between the routes")));
                break;
            }
        }
    }
    let _ = std::fs::remove_dir_all(&dir);
    result
}

// ---------------------------------------------------------------- jq

fn jq_variants(layout_c: bool, prog: &str, ascii_only: bool) -> (Variant, Vec<Variant>) {
    let l: Vec<String> = if layout_c { vec!["-c".into()] } else { vec![] };
    let mk = |pre: &[&str], p: String| -> Vec<String> {
        let mut v: Vec<String> = pre.iter().map(|s| s.to_string()).collect();
        v.extend(l.iter().cloned());
        v.push(p);
        v
    };
    let base = Variant { name: "lazy", args: mk(&[], prog.to_string()) };
    let mut forced = vec![Variant { name: "comment-input", args: mk(&[], format!("{} # input", prog)) }];
    if ascii_only {
        forced.push(Variant { name: "ascii-output", args: mk(&["-a"], prog.to_string()) });
    }
    (base, forced)
}

fn all_ascii(j: &J) -> bool {
    let mut stack = vec![j];
    while let Some(x) = stack.pop() {
        match x {
            J::Str(s) if !s.is_ascii() => return false,
            J::Arr(a) => stack.extend(a.iter()),
            J::Obj(f) => {
                for (k, v) in f {
                    if !k.is_ascii() {
                        return false;
                    }
                    stack.push(v);
                }
            }
            _ => {}
        }
    }
    true
}

fn jq_case(u: &mut Src, st: &mut Stats) -> Result<(), Fail> {
    let n = match u.below(5) {
        0 => 1,
        1 => u.range(2, 4),
        _ => u.range(4, 16),
    };
    let ascii_batch = u.ratio(2, 5);
    let docs: Vec<J> = (0..n)
        .map(|_| {
            let o = GenOpts {
                max_depth: u.range(1, 6),
                max_nodes: u.range(2, 50),
                strings: if ascii_batch { *u.pick(&[StrPalette::Ascii, StrPalette::AsciiPlain]) } else { StrPalette::Full },
                keys: *u.pick(&[KeyPalette::Ident, KeyPalette::Ident, KeyPalette::AsStrings, KeyPalette::Hostile]),
                ..GenOpts::default()
            };
            let o = if ascii_batch && o.keys == KeyPalette::Hostile { GenOpts { keys: KeyPalette::Ident, ..o } } else { o };
            gj::gen_value(u, &o)
        })
        .collect();
    let ascii_only = docs.iter().all(all_ascii);
    let pick = u.below(n);
    let (prog, pclass) = gen_program(u, &docs[pick]);
    let texts: Vec<Vec<u8>> = docs
        .iter()
        .map(|j| {
            let ro = gj::render_opts(u);
            gj::render(j, u, ro).text
        })
        .collect();
    let join = |idx: &[usize]| -> Vec<u8> {
        let mut v = vec![];
        for &i in idx {
            v.extend_from_slice(&texts[i]);
            v.push(b'\n');
        }
        v
    };
    st.class(&format!("program-{}", pclass));
    st.class_if(ascii_only, "ascii-only-batch (-a compared)");
    for (j, t) in docs.iter().zip(texts.iter()) {
        st.evals(1);
        st.class_if(j.has_dup_keys(), "doc-duplicate-keys");
        if j.depth() >= 2 && pclass != "identity" {
            st.class("nontrivial");
            st.nontrivial(mix64(hash_bytes(t) ^ hash_str(&prog)));
        }
        st.size(t.len());
    }
    st.sample(pclass, || json!({"program": prog, "documents": n, "first": lossy(&texts[0][..texts[0].len().min(200)])}));
    st.describe(|| json!({"tool": "jq", "program": prog, "documents": texts.iter().map(|t| lossy(t)).collect::<Vec<_>>()}));
    let all: Vec<usize> = (0..n).collect();
    for layout_c in [false, true] {
        let (base, forced) = jq_variants(layout_c, &prog, ascii_only);
        match compare("jq", "C27/jq", &base, &forced, &join(&all), "in.json", n == 1) {
            Ok(Outcome::Pass) => {}
            Ok(Outcome::Inconclusive) => {
                st.discard();
                return Ok(());
            }
            Err(bf) => {
                if n == 1 {
                    return Err(bf);
                }
                for i in 0..n {
                    match compare("jq", "C27/jq", &base, &forced, &join(&[i]), "in.json", true) {
                        Err(f) => return Err(f),
                        Ok(Outcome::Inconclusive) => {
                            st.discard();
                            return Ok(());
                        }
                        Ok(Outcome::Pass) => {}
                    }
                }
                let mut f = bf;
                f.sig = f.sig.replacen("C27/jq", "C27/jq/stream-only", 1);
                return Err(f);
            }
        }
    }
    Ok(())
}

// ---------------------------------------------------------------- yq: block YAML

const RESERVED: &[&str] = &["true", "false", "null", "yes", "no", "on", "off", "nan", "inf", "y", "n"];

fn gen_yaml_model(u: &mut Src, depth: usize, budget: &mut usize, plain_only: bool) -> J {
    *budget = budget.saturating_sub(1);
    if depth == 0 || *budget == 0 || u.ratio(2, 5) {
        return match u.below(8) {
            0 => J::Null,
            1 => J::Bool(u.bool()),
            2 | 3 => J::int(u.range_i64(-9, 999)),
            4 | 5 if !plain_only => J::Str(gj::gen_string(u, StrPalette::AsciiPlain, 10)),
            _ => {
                let n = u.range(2, 6);
                let s: String = (0..n).map(|_| (b'a' + u.below(26) as u8) as char).collect();
                J::Str(if RESERVED.contains(&s.as_str()) { "word".into() } else { s })
            }
        };
    }
    let n = u.range(0, 4);
    if u.bool() {
        J::Arr((0..n).map(|_| gen_yaml_model(u, depth - 1, budget, plain_only)).collect())
    } else {
        let mut f: Vec<(String, J)> = vec![];
        for _ in 0..n {
            let l = u.range(1, 3);
            let mut k: String = (0..l).map(|_| (b'a' + u.below(8) as u8) as char).collect();
            while f.iter().any(|e| e.0 == k) {
                k.push((b'a' + u.below(8) as u8) as char);
            }
            let v = gen_yaml_model(u, depth - 1, budget, plain_only);
            f.push((k, v));
        }
        J::Obj(f)
    }
}

fn plain_ok(s: &str) -> bool {
    s.len() >= 2 && s.bytes().all(|b| b.is_ascii_lowercase()) && !RESERVED.contains(&s)
}

fn yaml_inline(v: &J, quoted: &mut bool) -> Option<String> {
    Some(match v {
        J::Null => "null".into(),
        J::Bool(b) => b.to_string(),
        J::Num(n) => n.text.clone(),
        J::Str(s) => {
            if plain_ok(s) {
                s.clone()
            } else {
                *quoted = true;
                // AsciiPlain: no double quote, no backslash, printable. Half of the quoted
                // strings (chosen by length parity, so no entropy is needed here) are written
                // single-quoted with '' for an apostrophe: the two routes decode that escape in
                // different code.
                if s.len() % 2 == 0 {
                    format!("'{}'", s.replace('\'', "''"))
                } else {
                    format!("\"{}\"", s)
                }
            }
        }
        J::Arr(a) if a.is_empty() => "[]".into(),
        J::Obj(f) if f.is_empty() => "{}".into(),
        _ => return None,
    })
}

/// Tiny block renderer: `key: scalar`, `key:` + indented block, `- scalar`, `- ` + block.
fn yaml_block(v: &J, ind: usize, out: &mut Vec<String>, quoted: &mut bool) {
    let sp = " ".repeat(ind);
    match v {
        J::Obj(f) => {
            for (k, x) in f {
                match yaml_inline(x, quoted) {
                    Some(s) => out.push(format!("{}{}: {}", sp, k, s)),
                    None => {
                        out.push(format!("{}{}:", sp, k));
                        yaml_block(x, ind + 2, out, quoted);
                    }
                }
            }
        }
        J::Arr(a) => {
            for x in a {
                match yaml_inline(x, quoted) {
                    Some(s) => out.push(format!("{}- {}", sp, s)),
                    None => {
                        let mut inner = vec![];
                        yaml_block(x, ind + 2, &mut inner, quoted);
                        let first = inner.remove(0);
                        out.push(format!("{}- {}", sp, &first[ind + 2..]));
                        out.extend(inner);
                    }
                }
            }
        }
        _ => {}
    }
}

fn yaml_doc(v: &J, quoted: &mut bool) -> String {
    if let Some(s) = yaml_inline(v, quoted) {
        return format!("{}\n", s);
    }
    let mut lines = vec![];
    yaml_block(v, 0, &mut lines, quoted);
    let mut s = lines.join("\n");
    s.push('\n');
    s
}

// JSON outputs first: the open YAML-output findings must not mask them
const YQ_OUTS: &[(&str, &[&str])] = &[("json", &["-o", "json", "-I", "0"]), ("json", &["-o", "json"]), ("yaml", &[])];

fn yq_variants(pre: &[&str], out_args: &[&str], prog: &str, with_p: bool) -> (Variant, Vec<Variant>) {
    let mk = |extra: &[&str]| -> Vec<String> {
        let mut v: Vec<String> = pre.iter().map(|s| s.to_string()).collect();
        v.extend(out_args.iter().map(|s| s.to_string()));
        v.extend(extra.iter().map(|s| s.to_string()));
        v.push(prog.to_string());
        v
    };
    let base = Variant { name: "stream", args: mk(&[]) };
    let mut forced = vec![Variant { name: "dom-forced", args: mk(&["--arg", "unused", "x"]) }];
    if with_p {
        forced.push(Variant { name: "dom-forced", args: mk(&["-P"]) });
    }
    (base, forced)
}

fn yq_yaml_case(u: &mut Src, st: &mut Stats) -> Result<(), Fail> {
    let plain_only = u.ratio(1, 3);
    let ndocs = if u.ratio(1, 6) { u.range(2, 3) } else { 1 };
    let mut quoted = false;
    let docs: Vec<J> = (0..ndocs)
        .map(|_| {
            let mut b = u.range(3, 30);
            let dep = u.range(1, 4);
            let mut v = gen_yaml_model(u, dep, &mut b, plain_only);
            if !v.is_container() || matches!(&v, J::Arr(a) if a.is_empty()) || matches!(&v, J::Obj(f) if f.is_empty()) {
                v = J::Obj(vec![("a".into(), v)]);
            }
            v
        })
        .collect();
    let texts: Vec<String> = docs.iter().map(|d| yaml_doc(d, &mut quoted)).collect();
    let input = if ndocs == 1 { texts[0].clone() } else { texts.join("---\n") };
    let pick = u.below(ndocs);
    let (prog, pclass) = gen_program(u, &docs[pick]);
    let max_depth = docs.iter().map(|d| d.depth()).max().unwrap_or(0);
    st.class(&format!("program-{}", pclass));
    st.class(if ndocs > 1 { "multi-document-stream" } else { "single-document" });
    st.class_if(!quoted, "no-quoted-scalar (-P compared on YAML output)");
    st.sample(pclass, || json!({"program": prog, "input": input}));
    st.describe(|| json!({"tool": "yq", "program": prog, "input": input}));
    let mode = if ndocs > 1 { "block-yaml-stream" } else { "block-yaml" };
    for (oname, oargs) in YQ_OUTS {
        st.evals(1);
        if max_depth >= 2 && pclass != "identity" {
            st.class("nontrivial");
            st.nontrivial(mix64(hash_str(&input) ^ hash_str(&prog) ^ hash_str(&oargs.join(" "))));
        }
        let with_p = *oname == "json" || !quoted;
        let (base, forced) = yq_variants(&[], oargs, &prog, with_p);
        let sig = format!("C27/yq/{}/{}-output", mode, oname);
        match compare("yq", &sig, &base, &forced, input.as_bytes(), "in.yaml", ndocs == 1) {
            Ok(Outcome::Pass) => {}
            Ok(Outcome::Inconclusive) => {
                st.discard();
                return Ok(());
            }
            Err(f) => return Err(f),
        }
    }
    Ok(())
}

// ---------------------------------------------------------------- yq: JSON text

fn yq_json_case(u: &mut Src, st: &mut Stats) -> Result<(), Fail> {
    let numbers = *u.pick(&[0u8, 0, 1, 2]);
    let palette = *u.pick(&[StrPalette::AsciiPlain, StrPalette::AsciiPlain, StrPalette::Ascii]);
    let o = GenOpts {
        max_depth: u.range(1, 5),
        max_nodes: u.range(2, 40),
        dup_keys: false,
        strings: palette,
        keys: KeyPalette::Ident,
        numbers,
        max_str_len: 12,
    };
    let mut doc = gj::gen_value(u, &o);
    if !doc.is_container() {
        doc = J::Arr(vec![doc]);
    }
    let ro = gj::RenderOpts { ws: *u.pick(&[gj::Ws::None, gj::Ws::Spaced, gj::Ws::Pretty]), esc: gj::Esc::Minimal, outer_ws: false };
    let mut text = gj::render(&doc, u, ro).text;
    text.push(b'\n');
    let (mode, pre, fname): (&str, &[&str], &str) = match u.below(3) {
        0 => ("json-as-yaml-flow", &[], "in.yaml"),
        1 => ("p-json", &["-p", "json"], "in.txt"),
        _ => ("dot-json-file", &[], "in.json"),
    };
    let (prog, pclass) = gen_program(u, &doc);
    st.class(&format!("program-{}", pclass));
    st.class(&format!("input-{}", mode));
    st.class(&format!("numbers-level-{}", numbers));
    st.sample(mode, || json!({"program": prog, "input": lossy(&text)}));
    st.describe(|| json!({"tool": "yq", "mode": mode, "program": prog, "input": lossy(&text)}));
    for (oname, oargs) in YQ_OUTS {
        // strings with escapes / control characters: YAML output re-spells the source's
        // double-quoted scalar on the materialised route only (same root cause as the
        // registered scalar-quote-style finding); compared on JSON output only
        if *oname == "yaml" && palette == StrPalette::Ascii {
            st.class("yaml-output-skipped (escaped strings)");
            continue;
        }
        st.evals(1);
        if doc.depth() >= 2 && pclass != "identity" {
            st.class("nontrivial");
            st.nontrivial(mix64(hash_bytes(&text) ^ hash_str(&prog) ^ hash_str(&oargs.join(" ")) ^ hash_str(mode)));
        }
        // -P strips flow/quote style: neutral only for JSON output
        let with_p = *oname == "json";
        let (base, forced) = yq_variants(pre, oargs, &prog, with_p);
        let sig = format!("C27/yq/{}/{}-output", mode, oname);
        match compare("yq", &sig, &base, &forced, &text, fname, true) {
            Ok(Outcome::Pass) => {}
            Ok(Outcome::Inconclusive) => {
                st.discard();
                return Ok(());
            }
            Err(f) => return Err(f),
        }
    }
    Ok(())
}

// ---------------------------------------------------------------- replays

fn replay_input(v: &Value) -> Option<Fail> {
    let inp = &v["input"];
    let strs = |x: &Value| -> Vec<String> { x.as_array().map(|a| a.iter().filter_map(|s| s.as_str().map(|s| s.to_string())).collect()).unwrap_or_default() };
    let tool = inp["tool"].as_str().unwrap_or("yq").to_string();
    let base = Variant { name: "base", args: strs(&inp["base_args"]) };
    let fname: &'static str = match inp["forced_name"].as_str().unwrap_or("arg") {
        "dom-forced" => "dom-forced",
        "comment-input" => "comment-input",
        "ascii-output" => "ascii-output",
        _ => "forced",
    };
    let forced = vec![Variant { name: fname, args: strs(&inp["forced_args"]) }];
    let text = inp["text"].as_str().unwrap_or("").as_bytes().to_vec();
    let sig = inp["sigbase"].as_str().unwrap_or("C27/replay").to_string();
    match compare(&tool, &sig, &base, &forced, &text, inp["file_name"].as_str().unwrap_or("in.yaml"), true) {
        Ok(_) => None,
        Err(f) => Some(f),
    }
}

pub fn run(cx: &mut Ctx) {
    if !cli::cli_available() {
        cx.infra(format!("CLI binary not found at {}", cli::cli_path()));
        return;
    }
    cx.assume("route forcing is observed, not hooked: jq_runner.rs leaves the lazy path when the filter text contains \"input\" or -a is given; yq_runner.rs leaves M2/P9 streaming when any --arg is present or -P is given");
    cx.assume("kept out by construction (documented route differences): yq duplicate mapping keys, comma programs, comments/anchors, -S; -P on YAML output is only compared for documents without flow style or quoted scalars (stripping those is -P's purpose)");
    for (name, v) in cx.replays.clone() {
        if v["kind"] == "input" {
            let r = replay_input(&v);
            cx.replay_outcome(&name, r);
        }
    }
    cx.check("jq-routes", RULE, Budget { quick: 700, thorough: 20_000, max_len: 8_000 }, jq_case);
    for c in ["program-identity", "program-path", "program-iterate", "program-slice", "program-select", "program-keys_unsorted", "program-first", "ascii-only-batch (-a compared)", "doc-duplicate-keys", "nontrivial"] {
        cx.require_class("jq-routes", c, 5);
    }
    cx.check("yq-block-yaml", RULE, Budget { quick: 500, thorough: 15_000, max_len: 2_000 }, yq_yaml_case);
    for c in ["program-path", "program-iterate", "program-select", "multi-document-stream", "no-quoted-scalar (-P compared on YAML output)", "nontrivial"] {
        cx.require_class("yq-block-yaml", c, 5);
    }
    cx.check("yq-json-text", RULE, Budget { quick: 500, thorough: 15_000, max_len: 3_000 }, yq_json_case);
    for c in ["input-json-as-yaml-flow", "input-p-json", "input-dot-json-file", "program-path", "nontrivial"] {
        cx.require_class("yq-json-text", c, 5);
    }
    cli::cleanup();
}
