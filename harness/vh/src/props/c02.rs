//! C02 — word-level bit kernels exact on every word (DESIGN §4 C02).
//!
//! Subjects: `select_in_word` (host dispatch) and, through the
//! `cfg(succinctly_verif)` hooks, the CTZ loop, the broadword variant, the PDEP
//! path (if the host has BMI2) and the byte select table; `popcount_word`,
//! `popcount_word_portable`, `popcount_words`; `block_popcount_portable` and the
//! AVX2 block kernel (if the host has AVX2); `scan_select`, `scan_select_scalar`,
//! `select_from`; `find_close_in_word`, `find_unmatched_close_in_word`.
//! Every oracle is a one-bit-at-a-time loop written here.
use crate::engine::*;
use crate::gen::bits;
use serde_json::json;
use succinctly::bits::{
    block_popcount_portable, popcount_word, popcount_word_portable, popcount_words, scan_select,
    scan_select_scalar, select_from, BLOCK,
};
use succinctly::select_in_word;
use succinctly::trees::{find_close_in_word, find_unmatched_close_in_word};
use succinctly::verif_hooks as hooks;

pub const RULE: &str = "Enumerated families (all 64 one-bit words, all 2016 two-bit words, all 2^16 16-bit patterns in each of the 4 lanes over a 0-background and a 1-background plus as a 4x periodic fill; all 256 bytes for the byte table) and generated words (per-byte classes {00,01,80,FF,random}, low/high masks, runs, AND-thinned, OR-thickened, k-bit-cleared, single/two-bit, random) each with EVERY k in 0..=65 plus {100, 2^31, u32::MAX}; every p in 0..=65 for the parenthesis kernels; 8-word blocks and 0..600-word slices from G-bits for popcounts; (words,start_word,remaining) with remaining at the total-ones boundary for the scan. Oracles are bit-at-a-time loops. Non-trivial: popcount(x) in 1..=63 (k then covers popcount-1, popcount, popcount+1); slices/blocks with >=1 set bit; scans that leave the 8-word prologue; distinct by hash of the word(s).";

const K_EXTRA: [u32; 3] = [100, 1 << 31, u32::MAX];

// ------------------------------------------------------------------ oracles

/// positions of the set bits, lowest first (bit-at-a-time)
fn ones_of(x: u64) -> ([u8; 64], u32) {
    let mut pos = [0u8; 64];
    let mut n = 0u32;
    for i in 0..64u32 {
        if (x >> i) & 1 == 1 {
            pos[n as usize] = i as u8;
            n += 1;
        }
    }
    (pos, n)
}

fn popcount_model(x: u64) -> u32 {
    let mut n = 0;
    for i in 0..64 {
        if (x >> i) & 1 == 1 {
            n += 1;
        }
    }
    n
}

/// first position where the running excess (1=+1, 0=-1) drops below 0, else 64
fn unmatched_close_model(x: u64) -> u32 {
    let mut e: i32 = 0;
    for i in 0..64u32 {
        if (x >> i) & 1 == 1 {
            e += 1;
        } else {
            e -= 1;
            if e < 0 {
                return i;
            }
        }
    }
    64
}

fn find_close_model(w: u64, p: u32) -> Option<u32> {
    if p >= 64 {
        return None;
    }
    if (w >> p) & 1 == 0 {
        return Some(p); // documented degenerate case
    }
    let mut e: i32 = 1;
    for q in p + 1..64 {
        if (w >> q) & 1 == 1 {
            e += 1;
        } else {
            e -= 1;
            if e == 0 {
                return Some(q);
            }
        }
    }
    None
}

// ------------------------------------------------------------------ subjects

#[derive(Clone, Copy)]
struct Host {
    bmi2: bool,
    avx2: bool,
}

fn host() -> Host {
    Host {
        bmi2: hooks::select_in_word_pdep(1, 0).is_some(),
        avx2: hooks::block_popcount_avx2(&[0u64; 8]).is_some(),
    }
}

/// all select subjects on (x, every k) against the bit-loop model
fn check_select_word(x: u64, h: Host, fam: &str, st: &mut Stats) -> Result<(), Fail> {
    let (pos, n) = ones_of(x);
    let one = |k: u32| -> Result<(), Fail> {
        let e = if k < n { pos[k as usize] as u32 } else { 64 };
        let info = || json!({"x": format!("{:#018x}", x), "k": k, "family": fam, "popcount": n});
        check_eq!("C02/select_in_word/dispatch", e, select_in_word(x, k), info());
        check_eq!("C02/select_in_word/ctz", e, hooks::select_in_word_ctz(x, k), info());
        check_eq!("C02/select_in_word/broadword", e, hooks::select_in_word_broadword(x, k), info());
        if h.bmi2 {
            check_eq!("C02/select_in_word/pdep", Some(e), hooks::select_in_word_pdep(x, k), info());
        }
        Ok(())
    };
    for k in 0..=65u32 {
        one(k)?;
    }
    for k in K_EXTRA {
        one(k)?;
    }
    st.evals((66 + K_EXTRA.len() as u64) * if h.bmi2 { 4 } else { 3 });
    Ok(())
}

fn check_popcount_word(x: u64, fam: &str, st: &mut Stats) -> Result<(), Fail> {
    let e = popcount_model(x);
    let info = || json!({"x": format!("{:#018x}", x), "family": fam});
    check_eq!("C02/popcount_word", e, popcount_word(x), info());
    check_eq!("C02/popcount_word_portable", e, popcount_word_portable(x), info());
    check_eq!("C02/popcount_words/len1", e as usize, popcount_words(&[x]), info());
    st.evals(3);
    Ok(())
}

fn check_paren_word(w: u64, fam: &str, st: &mut Stats) -> Result<(), Fail> {
    let info = |p: u32| json!({"word": format!("{:#018x}", w), "p": p, "family": fam});
    check_eq!("C02/find_unmatched_close_in_word", unmatched_close_model(w), find_unmatched_close_in_word(w), info(0));
    for p in 0..=65u32 {
        check_eq!("C02/find_close_in_word", find_close_model(w, p), find_close_in_word(w, p), info(p));
    }
    for p in [100u32, 1 << 31, u32::MAX] {
        check_eq!("C02/find_close_in_word", None::<u32>, find_close_in_word(w, p), info(p));
    }
    st.evals(70);
    Ok(())
}

// ------------------------------------------------------------------ enumerated families

const N_ONE: u64 = 64;
const N_TWO: u64 = 2016;
const N_PAT: u64 = 65536 * 9;

/// item `i` of the enumerated word family, with its family name
fn enumerated_word(i: u64) -> (u64, &'static str) {
    if i < N_ONE {
        return (1u64 << i, "one-bit");
    }
    let i = i - N_ONE;
    if i < N_TWO {
        // pair (a<b) number i
        let mut a = 0u64;
        let mut rem = i;
        loop {
            let row = 63 - a;
            if rem < row {
                break;
            }
            rem -= row;
            a += 1;
        }
        let b = a + 1 + rem;
        return ((1u64 << a) | (1u64 << b), "two-bit");
    }
    let i = i - N_TWO;
    let pat = i & 0xFFFF;
    match i >> 16 {
        v @ 0..=3 => (pat << (16 * v), "pattern16-lane-over-zeros"),
        v @ 4..=7 => {
            let sh = 16 * (v - 4);
            ((pat << sh) | !(0xFFFFu64 << sh), "pattern16-lane-over-ones")
        }
        _ => (pat.wrapping_mul(0x0001_0001_0001_0001), "pattern16-periodic"),
    }
}

const N_ENUM: u64 = N_ONE + N_TWO + N_PAT;

// ------------------------------------------------------------------ generated words

const BYTE_CLASS: [u8; 4] = [0x00, 0x01, 0x80, 0xFF];

pub fn gen_word(u: &mut Src) -> (u64, &'static str) {
    match u.below(14) {
        0 => {
            // each byte from {00, 01, 80, FF, random}
            let mut x = 0u64;
            for b in 0..8 {
                let c = u.below(5);
                let v = if c < 4 { BYTE_CLASS[c] } else { u.byte() };
                x |= (v as u64) << (8 * b);
            }
            (x, "byte-classes")
        }
        1 => {
            let n = u.below(65) as u32;
            (if n == 64 { u64::MAX } else { (1u64 << n) - 1 }, "low-mask")
        }
        2 => {
            let n = u.below(65) as u32;
            (if n == 64 { u64::MAX } else { !((1u64 << n) - 1) }, "high-mask")
        }
        3 => {
            // a run of ones anywhere
            let a = u.below(64) as u32;
            let l = u.range(1, 64 - a as usize) as u32;
            let m = if l == 64 { u64::MAX } else { (1u64 << l) - 1 };
            (m << a, "run")
        }
        4 => (u.u64() & u.u64() & u.u64(), "thinned"),
        5 => (u.u64() | u.u64() | u.u64(), "thickened"),
        6 => {
            // all ones with a few bits cleared (k = 63 / 62 / popcount boundary)
            let mut x = u64::MAX;
            for _ in 0..u.range(1, 3) {
                x &= !(1u64 << u.below(64));
            }
            (x, "ones-minus-few")
        }
        7 => (1u64 << u.below(64), "one-bit"),
        8 => ((1u64 << u.below(64)) | (1u64 << u.below(64)) | (1u64 << 63), "with-bit63"),
        9 => {
            let p = u.byte() as u64;
            (p.wrapping_mul(0x0101_0101_0101_0101), "byte-periodic")
        }
        10 => {
            // random in one byte lane, fixed elsewhere: byte-lane carries
            let lane = u.below(8) as u32;
            let bg = *u.pick(&[0u64, u64::MAX, 0x8080_8080_8080_8080, 0x0101_0101_0101_0101]);
            let m = 0xFFu64 << (8 * lane);
            ((bg & !m) | ((u.byte() as u64) << (8 * lane)), "one-random-lane")
        }
        11 => {
            // random walk: parenthesis-like
            let mut x = 0u64;
            let mut e = 0i32;
            let bias = u.below(3);
            for i in 0..64 {
                let open = match bias {
                    0 => u.bool(),
                    1 => e <= 0 || u.ratio(1, 2),
                    _ => u.ratio(2, 3),
                };
                if open {
                    x |= 1u64 << i;
                    e += 1;
                } else {
                    e -= 1;
                }
            }
            (x, "paren-walk")
        }
        12 => {
            // opens then closes then opens...: long monotone runs
            let mut x = 0u64;
            let mut i = 0usize;
            let mut open = u.bool();
            while i < 64 {
                let l = u.range(1, 40).min(64 - i);
                if open {
                    let m = if l == 64 { u64::MAX } else { (1u64 << l) - 1 };
                    x |= m << i;
                }
                i += l;
                open = !open;
            }
            (x, "monotone-runs")
        }
        _ => (u.u64(), "random"),
    }
}

// ------------------------------------------------------------------ run

pub fn run(cx: &mut Ctx) {
    cx.assume("reference models: one-bit-at-a-time loops over the word / the slice (harness code)");
    cx.assume("the CTZ loop, broadword variant, PDEP path, byte table and AVX2 block kernel are reached through #[cfg(succinctly_verif)] wrappers that only forward their arguments (commit 'verif hooks' in /repo)");
    cx.assume("2^64 words cannot be enumerated: enumerated families + structured random words stand in for 'every word'");
    let h = host();
    if !h.bmi2 {
        cx.note("host CPU has no BMI2: subject select_in_word_pdep skipped");
    }
    if !h.avx2 {
        cx.note("host CPU has no AVX2: subject block_popcount_avx2 skipped");
    }
    cx.extra.insert(
        "host_paths".into(),
        json!({"bmi2_pdep_subject": h.bmi2, "avx2_block_popcount_subject": h.avx2}),
    );

    // -------- enumerated: select + popcount + parenthesis kernels on the structured families
    cx.exhaustive(
        "enumerated-words",
        "all one-bit words, all two-bit words, every 16-bit pattern in each 16-bit lane over zeros / over ones and as a periodic fill (591 904 words): select subjects x every k in 0..=65 U {100,2^31,u32::MAX}; popcounts; find_close_in_word x every p in 0..=65 U {100,2^31,u32::MAX}; find_unmatched_close_in_word",
        true,
        |shard, nshards, st| {
            let mut i = shard as u64;
            while i < N_ENUM {
                let (x, fam) = enumerated_word(i);
                st.cases += 1;
                st.class(fam);
                let pc = popcount_model(x);
                if (1..=63).contains(&pc) {
                    st.nontrivial(mix64(x));
                }
                if i % 65536 == 77 {
                    st.sample(fam, || json!({"x": format!("{:#018x}", x)}));
                }
                check_select_word(x, h, fam, st)?;
                check_popcount_word(x, fam, st)?;
                check_paren_word(x, fam, st)?;
                i += nshards as u64;
            }
            Ok(())
        },
    );
    cx.exhaustive(
        "byte-table",
        "select_in_byte(b,k) for all 256 bytes x k in 0..=9 U {100,2^31,u32::MAX} against a bit loop (8 when fewer than k+1 set bits)",
        true,
        |shard, _n, st| {
            if shard != 0 {
                return Ok(());
            }
            for b in 0..=255u8 {
                st.cases += 1;
                if b != 0 {
                    st.nontrivial(b as u64);
                }
                for k in (0..=9u32).chain(K_EXTRA) {
                    let mut c = 0u32;
                    let mut e = 8u32;
                    for i in 0..8u32 {
                        if (b >> i) & 1 == 1 {
                            if c == k {
                                e = i;
                                break;
                            }
                            c += 1;
                        }
                    }
                    check_eq!("C02/select_in_byte", e, hooks::select_in_byte(b, k), {"byte": b, "k": k});
                    st.evals(1);
                }
            }
            Ok(())
        },
    );

    // -------- generated words: select / popcount / parenthesis kernels
    cx.check(
        "words-generated",
        RULE,
        Budget { quick: 250_000, thorough: 8_000_000, max_len: 1200 },
        |u, st| {
            let n = u.range(1, 32);
            let mut batch: Vec<(u64, &'static str)> = Vec::with_capacity(n);
            for _ in 0..n {
                batch.push(gen_word(u));
            }
            st.describe(|| json!({"words": batch.iter().map(|(x, f)| json!([format!("{:#018x}", x), f])).collect::<Vec<_>>()}));
            st.size(n);
            for &(x, fam) in &batch {
                st.class(fam);
                let pc = popcount_model(x);
                st.class_if(pc == 0, "popcount=0");
                st.class_if(pc == 64, "popcount=64");
                st.class_if(pc == 63, "popcount=63");
                st.class_if((x >> 63) & 1 == 1, "bit63-set");
                if (1..=63).contains(&pc) {
                    st.class("nontrivial");
                    st.nontrivial(mix64(x));
                }
                st.sample(fam, || json!({"x": format!("{:#018x}", x), "popcount": pc}));
                check_select_word(x, h, fam, st)?;
                check_popcount_word(x, fam, st)?;
                check_paren_word(x, fam, st)?;
            }
            Ok(())
        },
    );
    for cl in ["byte-classes", "ones-minus-few", "one-random-lane", "paren-walk", "monotone-runs", "popcount=63", "bit63-set", "nontrivial"] {
        cx.require_class("words-generated", cl, 50);
    }

    // -------- popcount over slices and 8-word blocks
    cx.check(
        "popcount-slices-blocks",
        "G-bits word vectors (0..=600 words, all density classes incl. all-ones) read as a whole slice, at every sub-slice offset 0..=8 and boundary lengths (0,1,7,8,9,15,16,17,31,32,33,63,64,65); every aligned and a sampled unaligned 8-word window as a block: popcount_words, block_popcount_portable and the AVX2 block kernel against a bit loop. Non-trivial: >=1 set bit.",
        Budget { quick: 100_000, thorough: 5_000_000, max_len: 5000 },
        |u, st| {
            let (mut words, mut d) = bits::words(u, 600);
            if u.ratio(1, 6) {
                // force a block-sized or all-ones vector
                let n = *u.pick(&[8usize, 16, 64, 9, 24]);
                if u.bool() {
                    d = bits::Density::One;
                }
                words = bits::words_of(u, n, d);
            }
            let pre: Vec<usize> = {
                let mut v = Vec::with_capacity(words.len() + 1);
                let mut a = 0usize;
                v.push(0);
                for &w in &words {
                    a += popcount_model(w) as usize;
                    v.push(a);
                }
                v
            };
            let n = words.len();
            st.describe(|| json!({"density": format!("{:?}", d), "words_hex": words.iter().map(|w| format!("{:016x}", w)).collect::<Vec<_>>()}));
            st.size(n);
            st.class(&format!("density-{:?}", d));
            st.class_if(n >= 8, "has-block");
            st.class_if(n > 64, "words>64");
            if pre[n] > 0 {
                st.class("nontrivial");
                st.nontrivial(hash_words(&words));
            }
            st.sample(&format!("{:?}", d), || json!({"n_words": n, "ones": pre[n], "first_words": words.iter().take(3).map(|w| format!("{:016x}", w)).collect::<Vec<_>>()}));
            let info = |a: usize, b: usize| json!({"slice": [a, b], "n_words": n, "density": format!("{:?}", d)});
            // slices
            let mut ranges: Vec<(usize, usize)> = vec![(0, n)];
            for a in 0..=8usize.min(n) {
                ranges.push((a, n));
                for l in [0usize, 1, 7, 8, 9, 15, 16, 17, 31, 32, 33, 63, 64, 65] {
                    if a + l <= n {
                        ranges.push((a, a + l));
                    }
                }
            }
            for _ in 0..8 {
                let a = u.range(0, n);
                let b = u.range(a, n);
                ranges.push((a, b));
            }
            for &(a, b) in &ranges {
                check_eq!("C02/popcount_words", pre[b] - pre[a], popcount_words(&words[a..b]), info(a, b));
            }
            st.evals(ranges.len() as u64);
            // blocks
            if n >= BLOCK {
                let mut starts: Vec<usize> = (0..=n - BLOCK).step_by(BLOCK).collect();
                for _ in 0..6 {
                    starts.push(u.range(0, n - BLOCK));
                }
                for &a in &starts {
                    let blk = &words[a..a + BLOCK];
                    let e = pre[a + BLOCK] - pre[a];
                    st.class_if(e == 512, "block-all-ones");
                    check_eq!("C02/block_popcount_portable", e, block_popcount_portable(blk), info(a, a + BLOCK));
                    if h.avx2 {
                        check_eq!("C02/block_popcount_avx2", Some(e), hooks::block_popcount_avx2(blk), info(a, a + BLOCK));
                        // a longer slice: the kernel reads exactly the first BLOCK words
                        check_eq!("C02/block_popcount_avx2/long-slice", Some(e), hooks::block_popcount_avx2(&words[a..]), info(a, n));
                    }
                }
                st.evals(starts.len() as u64 * if h.avx2 { 3 } else { 1 });
            }
            Ok(())
        },
    );
    cx.require_class("popcount-slices-blocks", "has-block", 50);
    cx.require_class("popcount-slices-blocks", "block-all-ones", 20);
    cx.require_class("popcount-slices-blocks", "nontrivial", 50);

    // -------- scan_select / scan_select_scalar / select_from
    cx.check(
        "scan-select",
        "G-bits word vectors (0..=600 words; sparse/bursty classes make scans skip whole 8-word blocks) x start_word in 0..=words+2 x remaining in {0, ones_from_start-1, ones_from_start, +1, random, usize::MAX}: scan_select, scan_select_scalar (word, in-word rank) and select_from (absolute bit) against a per-word bit-loop walk. Non-trivial: the answer lies past the 8-word prologue (block loop or tail reached).",
        Budget { quick: 200_000, thorough: 10_000_000, max_len: 5000 },
        |u, st| {
            let (words, d) = bits::words(u, 600);
            let n = words.len();
            let pops: Vec<usize> = words.iter().map(|&w| popcount_model(w) as usize).collect();
            st.describe(|| json!({"density": format!("{:?}", d), "words_hex": words.iter().map(|w| format!("{:016x}", w)).collect::<Vec<_>>()}));
            st.size(n);
            st.class(&format!("density-{:?}", d));
            let nq = 24;
            let mut nontrivial = false;
            for qi in 0..nq {
                let start = match u.below(12) {
                    0 | 1 => 0,
                    2 => n + u.below(3),
                    3 | 4 => {
                        let back = u.range(1, 9);
                        n.saturating_sub(back)
                    }
                    _ => u.range(0, n),
                };
                let from: usize = if start < n { pops[start..].iter().sum() } else { 0 };
                let rem = match (qi + u.below(2)) % 10 {
                    0 => 0,
                    1 | 2 => from.saturating_sub(1),
                    3 => from,
                    4 => from + 1,
                    5 => usize::MAX,
                    _ => u.range(0, from.saturating_sub(1)),
                };
                // model: walk words from `start`
                let mut e: Option<(usize, usize)> = None;
                let mut r = rem;
                let mut i = start;
                while i < n {
                    if pops[i] > r {
                        e = Some((i, r));
                        break;
                    }
                    r -= pops[i];
                    i += 1;
                }
                let e_abs = e.map(|(wi, r)| {
                    let (pos, _) = ones_of(words[wi]);
                    wi * 64 + pos[r] as usize
                });
                if let Some((wi, _)) = e {
                    if wi >= start + 8 {
                        nontrivial = true;
                        st.class("answer-past-prologue");
                        st.class_if(wi >= start + 8 + 16, "skipped>=2-blocks");
                    }
                } else {
                    st.class("none");
                }
                st.class_if(start >= n, "start>=len");
                let info = || json!({"start_word": start, "remaining": rem, "n_words": n, "density": format!("{:?}", d)});
                check_eq!("C02/scan_select", e, scan_select(&words, start, rem), info());
                check_eq!("C02/scan_select_scalar", e, scan_select_scalar(&words, start, rem), info());
                check_eq!("C02/select_from", e_abs, select_from(&words, start, rem), info());
                st.evals(3);
            }
            if nontrivial {
                st.class("nontrivial");
                st.nontrivial(hash_words(&words));
            }
            st.sample(&format!("{:?}", d), || json!({"n_words": n, "first_words": words.iter().take(3).map(|w| format!("{:016x}", w)).collect::<Vec<_>>()}));
            Ok(())
        },
    );
    for cl in ["answer-past-prologue", "skipped>=2-blocks", "none", "start>=len"] {
        cx.require_class("scan-select", cl, 50);
    }
}
