//! C11 — `succinctly jq .` output reads back to the input's value under every output
//! option (DESIGN §4 C11). Black-box: documents are built from the G-json model, written to
//! a file (or stdin), the CLI's stdout is split on the mode's separator and parsed with
//! O-jsonval, and compared with the model after jq's duplicate collapse (and a recursive
//! key sort under `-S`).
use crate::cli;
use crate::engine::*;
use crate::gen::json::{self as gj, GenOpts, KeyPalette, StrPalette, J};
use crate::oracle::jsonval as jv;
use serde_json::{json, Value};

pub const RULE: &str = "G-json documents (duplicate keys, every escape form, non-ASCII, every number shape, whitespace in every gap; nesting 0..255 levels = the printer's own guard, deeper ones only 'error reported, no crash') x option sets {default,-c,--indent 0..7,--tab} x [-S] x [-a] x [--seq] x {none,-r,-j,--raw-output0 (non-string roots)}; batches of 1..24 documents per spawn, 3 option sets per batch, first failing document isolated by re-running documents singly. Oracle: stdout split on the mode's separator, parsed by O-jsonval, equals the model after first-position/last-value duplicate collapse (keys sorted by UTF-8 bytes recursively under -S), numbers as doubles, strings identical; -a => pure ASCII; exit 0. Non-trivial document: nested container and (duplicate key or escape or non-ASCII or exponent/fraction number) under a non-default option set; distinct by hash(text,args).";

const GUARD_LEVEL: usize = 255; // deepest node level the printer accepts (`level < 256`)
const SEQ_VALIDATOR_DEPTH: usize = 128;
pub const SIG_SEQ_DROP: &str = "C11/seq/valid-document-dropped-silently/nesting>128";

#[derive(Clone, Copy, Debug, PartialEq)]
enum Layout {
    Default,
    Compact,
    Indent(u8),
    Tab,
}

#[derive(Clone, Copy, Debug, PartialEq)]
enum Raw {
    None,
    R,
    J,
    Raw0,
}

#[derive(Clone, Debug, PartialEq)]
struct Opts {
    layout: Layout,
    sort: bool,
    ascii: bool,
    seq: bool,
    raw: Raw,
}

impl Opts {
    fn args(&self) -> Vec<String> {
        let mut a: Vec<String> = vec!["jq".into()];
        match self.layout {
            Layout::Default => {}
            Layout::Compact => a.push("-c".into()),
            Layout::Indent(n) => {
                a.push("--indent".into());
                a.push(n.to_string());
            }
            Layout::Tab => a.push("--tab".into()),
        }
        if self.sort {
            a.push("-S".into());
        }
        if self.ascii {
            a.push("-a".into());
        }
        if self.seq {
            a.push("--seq".into());
        }
        match self.raw {
            Raw::None => {}
            Raw::R => a.push("-r".into()),
            Raw::J => a.push("-j".into()),
            Raw::Raw0 => a.push("--raw-output0".into()),
        }
        a
    }
    fn from_args(args: &[String]) -> Opts {
        let mut o = Opts { layout: Layout::Default, sort: false, ascii: false, seq: false, raw: Raw::None };
        let mut i = 0;
        while i < args.len() {
            match args[i].as_str() {
                "-c" => o.layout = Layout::Compact,
                "--tab" => o.layout = Layout::Tab,
                "--indent" => {
                    i += 1;
                    o.layout = Layout::Indent(args.get(i).and_then(|s| s.parse().ok()).unwrap_or(2));
                }
                "-S" => o.sort = true,
                "-a" => o.ascii = true,
                "--seq" => o.seq = true,
                "-r" => o.raw = Raw::R,
                "-j" => o.raw = Raw::J,
                "--raw-output0" => o.raw = Raw::Raw0,
                _ => {}
            }
            i += 1;
        }
        o
    }
    /// the lazy cursor printer is used unless one of these forces materialisation
    fn materialised(&self) -> bool {
        self.sort || self.ascii || self.seq
    }
    fn is_default(&self) -> bool {
        self.layout == Layout::Default && !self.sort && !self.ascii && !self.seq && self.raw == Raw::None
    }
    fn route(&self) -> &'static str {
        if self.materialised() {
            "materialised"
        } else {
            "lazy"
        }
    }
}

fn gen_opts(u: &mut Src) -> Opts {
    let layout = match u.below(6) {
        0 => Layout::Default,
        1 | 2 => Layout::Compact,
        3 | 4 => Layout::Indent(u.range(0, 7) as u8),
        _ => Layout::Tab,
    };
    Opts {
        layout,
        sort: u.ratio(1, 3),
        ascii: u.ratio(1, 3),
        seq: u.ratio(1, 4),
        raw: match u.below(8) {
            0 => Raw::R,
            1 => Raw::J,
            2 => Raw::Raw0,
            _ => Raw::None,
        },
    }
}

#[derive(Clone, Copy, Debug, PartialEq)]
enum Framing {
    /// documents separated by JSON whitespace
    Plain,
    /// RFC 7464: RS before, LF after every document (what `--seq` reads)
    Rs,
}

struct Doc {
    model: J,
    text: Vec<u8>,
}

/// deepest node level (root = 0); iterative
fn max_level(j: &J) -> usize {
    let mut max = 0;
    let mut stack: Vec<(&J, usize)> = vec![(j, 0)];
    while let Some((x, d)) = stack.pop() {
        max = max.max(d);
        match x {
            J::Arr(a) => stack.extend(a.iter().map(|y| (y, d + 1))),
            J::Obj(o) => stack.extend(o.iter().map(|y| (&y.1, d + 1))),
            _ => {}
        }
    }
    max
}

struct Feats {
    nested: bool,
    dup: bool,
    escape: bool,
    non_ascii: bool,
    expo: bool,
    big_int: bool,
}

fn feats(d: &Doc) -> Feats {
    let mut f = Feats {
        nested: d.model.depth() >= 2,
        dup: d.model.has_dup_keys(),
        escape: d.text.contains(&b'\\'),
        non_ascii: false,
        expo: false,
        big_int: false,
    };
    let mut stack: Vec<&J> = vec![&d.model];
    while let Some(x) = stack.pop() {
        match x {
            J::Arr(a) => stack.extend(a.iter()),
            J::Obj(o) => {
                for (k, v) in o {
                    if !k.is_ascii() {
                        f.non_ascii = true;
                    }
                    stack.push(v);
                }
            }
            J::Str(s) => {
                if !s.is_ascii() {
                    f.non_ascii = true;
                }
            }
            J::Num(n) => {
                if n.text.contains(['e', 'E', '.']) {
                    f.expo = true;
                }
                if n.int.is_none() && !n.text.contains(['e', 'E', '.']) {
                    f.big_int = true;
                }
            }
            _ => {}
        }
    }
    f
}

/// Run collapse/sort/compare on a roomy stack: the shared oracle helpers recurse.
fn on_big_stack<T: Send>(f: impl FnOnce() -> T + Send) -> T {
    std::thread::scope(|s| {
        std::thread::Builder::new()
            .stack_size(512 << 20)
            .spawn_scoped(s, f)
            .expect("spawn helper thread")
            .join()
            .expect("helper thread")
    })
}

fn expected_of(model: &J, sort: bool) -> J {
    let work = || {
        let c = jv::collapse_dups(model);
        if sort {
            let s = jv::sort_keys(&c);
            gj::drop_deep(c);
            s
        } else {
            c
        }
    };
    if model.depth() > 150 {
        on_big_stack(work)
    } else {
        work()
    }
}

/// First difference between two values: (jq-ish path, kind)
fn first_diff(exp: &J, act: &J) -> Option<(String, &'static str)> {
    let mut stack: Vec<(&J, &J, String)> = vec![(exp, act, String::from("."))];
    while let Some((a, b, p)) = stack.pop() {
        // keep paths short on deep documents
        let p = if p.len() > 400 {
            let mut c = p.len() - 300;
            while !p.is_char_boundary(c) {
                c += 1;
            }
            format!("…{}", &p[c..])
        } else {
            p
        };
        match (a, b) {
            (J::Null, J::Null) => {}
            (J::Bool(x), J::Bool(y)) if x == y => {}
            (J::Num(x), J::Num(y)) => {
                if x.value != y.value {
                    return Some((p, "number"));
                }
            }
            (J::Str(x), J::Str(y)) => {
                if x != y {
                    return Some((p, "string"));
                }
            }
            (J::Arr(x), J::Arr(y)) => {
                if x.len() != y.len() {
                    return Some((p, "array-length"));
                }
                for (i, (q, r)) in x.iter().zip(y.iter()).enumerate().rev() {
                    stack.push((q, r, format!("{}[{}]", p, i)));
                }
            }
            (J::Obj(x), J::Obj(y)) => {
                let kx: Vec<&String> = x.iter().map(|e| &e.0).collect();
                let ky: Vec<&String> = y.iter().map(|e| &e.0).collect();
                if kx != ky {
                    let mut sx = kx.clone();
                    let mut sy = ky.clone();
                    sx.sort();
                    sy.sort();
                    let dup_out = sy.windows(2).any(|w| w[0] == w[1]);
                    return Some((
                        p,
                        if dup_out {
                            "duplicate-key-in-output"
                        } else if sx == sy {
                            "key-order"
                        } else {
                            "key-set"
                        },
                    ));
                }
                for ((k, q), (_, r)) in x.iter().zip(y.iter()).rev() {
                    stack.push((q, r, format!("{}[{:?}]", p, k)));
                }
            }
            _ => return Some((p, "kind")),
        }
    }
    None
}

fn lossy(b: &[u8]) -> String {
    let s = String::from_utf8_lossy(b);
    if s.len() > 6000 {
        let mut cut = 6000;
        while !s.is_char_boundary(cut) {
            cut -= 1;
        }
        format!("{}…(+{} bytes)", &s[..cut], s.len() - cut)
    } else {
        s.to_string()
    }
}

/// Split stdout into one byte slice per printed value, by the mode's separator.
fn split_outputs<'a>(o: &Opts, out: &'a [u8]) -> Result<Vec<J>, (String, String)> {
    let parse_piece = |p: &[u8]| -> Result<J, (String, String)> {
        jv::parse_one(p).map_err(|e| ("output-not-json".to_string(), format!("{} at byte {} of piece {:?}", e.msg, e.offset, show_bytes(p))))
    };
    let term: &[u8] = match o.raw {
        Raw::Raw0 => b"\0",
        Raw::J => b"",
        _ => b"\n",
    };
    if o.seq {
        // RS value terminator, RS value terminator, ...
        let mut vals = vec![];
        if out.is_empty() {
            return Ok(vals);
        }
        if out[0] != 0x1e {
            return Err(("seq-missing-RS".into(), format!("stdout starts with {:?}", show_bytes(&out[..out.len().min(20)]))));
        }
        for piece in out[1..].split(|&b| b == 0x1e) {
            if !piece.ends_with(term) {
                return Err(("missing-terminator".into(), format!("record {:?} does not end with the mode's terminator", show_bytes(piece))));
            }
            vals.push(parse_piece(&piece[..piece.len() - term.len()])?);
        }
        return Ok(vals);
    }
    match o.raw {
        Raw::Raw0 => {
            let mut vals = vec![];
            if out.is_empty() {
                return Ok(vals);
            }
            if *out.last().unwrap() != 0 {
                return Err(("missing-terminator".into(), "stdout does not end with NUL".into()));
            }
            for piece in out[..out.len() - 1].split(|&b| b == 0) {
                vals.push(parse_piece(piece)?);
            }
            Ok(vals)
        }
        Raw::J => jv::parse_stream(out).map_err(|e| ("output-not-json".to_string(), format!("{} at byte {}", e.msg, e.offset))),
        _ => {
            if !out.is_empty() && *out.last().unwrap() != b'\n' {
                return Err(("missing-terminator".into(), "stdout does not end with LF".into()));
            }
            jv::parse_stream(out).map_err(|e| ("output-not-json".to_string(), format!("{} at byte {}", e.msg, e.offset)))
        }
    }
}

fn build_input(docs: &[&Doc], framing: Framing, sep: &[u8]) -> Vec<u8> {
    let mut v = vec![];
    for (i, d) in docs.iter().enumerate() {
        match framing {
            Framing::Rs => {
                v.push(0x1e);
                v.extend_from_slice(&d.text);
                v.push(b'\n');
            }
            Framing::Plain => {
                if i > 0 {
                    v.extend_from_slice(sep);
                }
                v.extend_from_slice(&d.text);
            }
        }
    }
    if framing == Framing::Plain && docs.len() > 1 {
        v.push(b'\n');
    }
    v
}

enum Outcome {
    Pass,
    Inconclusive,
}

/// One spawn over `docs`; every document's output is compared with its model.
fn run_docs(o: &Opts, docs: &[&Doc], framing: Framing, sep: &[u8], via_stdin: bool) -> Result<Outcome, Fail> {
    let input = build_input(docs, framing, sep);
    let mut args = o.args();
    args.push(".".into());
    let path;
    let out = if via_stdin {
        let a: Vec<&str> = args.iter().map(|s| s.as_str()).collect();
        cli::run(&a, Some(&input))
    } else {
        path = cli::write_tmp("c11", &input);
        args.push(path.to_string_lossy().to_string());
        let a: Vec<&str> = args.iter().map(|s| s.as_str()).collect();
        let r = cli::run(&a, None);
        let _ = std::fs::remove_file(&path);
        args.pop();
        r
    };
    if out.timed_out {
        return Ok(Outcome::Inconclusive);
    }
    let single = docs.len() == 1;
    let route = o.route();
    let detail = |what: &str, extra: Value| -> Value {
        let mut d = json!({
            "what": what,
            "args": args,
            "input_via": if via_stdin { "stdin" } else { "file argument" },
            "framing": format!("{:?}", framing),
            "documents": docs.len(),
            "exit": out.code,
            "signal": out.signal,
            "stderr": lossy(&out.stderr[..out.stderr.len().min(600)]),
            "extra": extra,
        });
        if single {
            d["doc"] = json!(lossy(&docs[0].text));
            d["stdout"] = json!(lossy(&out.stdout[..out.stdout.len().min(3000)]));
            d["nesting"] = json!(docs[0].model.depth());
        }
        d
    };
    let lvl = docs.iter().map(|d| max_level(&d.model)).max().unwrap_or(0);
    let beyond = lvl > GUARD_LEVEL;
    if out.signal.is_some() {
        return Err(Fail::new(format!("C11/{}/crash/signal", route), detail("killed by a signal", json!({}))));
    }
    if beyond && out.code != Some(0) {
        // outside the documented depth: an error must be reported, a crash is only the
        // documented nesting-guard panic
        let err = String::from_utf8_lossy(&out.stderr);
        if out.code == Some(101) && !err.contains("nesting depth exceeds limit of") {
            return Err(Fail::new(format!("C11/{}/crash/exit-101-beyond-depth", route), detail("panic other than the documented nesting guard", json!({"level": lvl}))));
        }
        if err.trim().is_empty() {
            return Err(Fail::new(format!("C11/{}/beyond-depth/failure-without-message", route), detail("non-zero exit and empty stderr", json!({"level": lvl}))));
        }
        return Ok(Outcome::Pass);
    }
    if out.code == Some(101) {
        return Err(Fail::new(format!("C11/{}/crash/exit-101", route), detail("Rust panic (exit status 101)", json!({}))));
    }
    if out.code != Some(0) {
        return Err(Fail::new(format!("C11/{}/exit-status", route), detail("non-zero exit status on a valid document", json!({}))));
    }
    let vals = match split_outputs(o, &out.stdout) {
        Ok(v) => v,
        Err((k, m)) => return Err(Fail::new(format!("C11/{}/{}", route, k), detail(&m, json!({})))),
    };
    if vals.len() != docs.len() {
        // the narrow shape of the --seq finding: whole document missing, exit 0, nothing printed for it
        let sig = if single && o.seq && vals.is_empty() && out.stdout.is_empty() && docs[0].model.depth() > SEQ_VALIDATOR_DEPTH {
            SIG_SEQ_DROP.to_string()
        } else if beyond {
            format!("C11/{}/beyond-depth/silent-drop", route)
        } else {
            format!("C11/{}/output-count", route)
        };
        return Err(Fail::new(sig, detail("number of printed values differs from the number of documents", json!({"printed": vals.len(), "level": lvl}))));
    }
    if o.ascii {
        if let Some(p) = out.stdout.iter().position(|&b| b >= 0x80) {
            return Err(Fail::new("C11/materialised/ascii-output/non-ascii-byte", detail("-a output contains a byte >= 0x80", json!({"offset": p}))));
        }
    }
    for (i, (d, v)) in docs.iter().zip(vals.iter()).enumerate() {
        let exp = expected_of(&d.model, o.sort);
        let same = gj::j_eq(&exp, v);
        if !same {
            let (path, kind) = first_diff(&exp, v).unwrap_or((".".into(), "unknown"));
            let f = feats(d);
            let tag = if f.dup && kind != "number" && kind != "string" { "/input-has-duplicate-keys" } else { "" };
            let mut det = detail("printed value differs from the input's value", json!({"document_index": i, "first_difference_at": path, "kind": kind, "expected": lossy(gj::to_compact(&exp).as_bytes())}));
            det["doc"] = json!(lossy(&d.text));
            return Err(Fail::new(format!("C11/{}/value-mismatch/{}{}{}", route, kind, tag, if o.sort { "/-S" } else { "" }), det));
        }
        gj::drop_deep(exp);
    }
    for v in vals {
        gj::drop_deep(v);
    }
    Ok(Outcome::Pass)
}

/// Batch, then isolate the first failing document.
fn run_batch(o: &Opts, docs: &[&Doc], framing: Framing, sep: &[u8], via_stdin: bool, st: &mut Stats) -> Result<(), Fail> {
    match run_docs(o, docs, framing, sep, via_stdin) {
        Ok(Outcome::Pass) => Ok(()),
        Ok(Outcome::Inconclusive) => {
            st.discard();
            Ok(())
        }
        Err(batch_fail) => {
            if docs.len() == 1 {
                return Err(batch_fail);
            }
            for d in docs {
                // a single document is first offered in its plainest form (no RS framing)
                for fr in [Framing::Plain, framing] {
                    match run_docs(o, &[*d], fr, sep, via_stdin) {
                        Err(f) => return Err(f),
                        Ok(Outcome::Inconclusive) => {
                            st.discard();
                            return Ok(());
                        }
                        Ok(Outcome::Pass) => {}
                    }
                    if framing == Framing::Plain {
                        break;
                    }
                }
            }
            // only the stream fails
            let mut f = batch_fail;
            f.sig = f.sig.replacen("C11/", "C11/stream-only/", 1);
            if let Some(m) = f.detail.as_object_mut() {
                m.insert("stream".into(), json!(lossy(&build_input(docs, framing, sep))));
            }
            Err(f)
        }
    }
}

fn gen_doc(u: &mut Src, tier_big: bool) -> J {
    let o = match u.below(8) {
        0 => GenOpts { max_depth: u.range(0, 3), max_nodes: u.range(1, 12), ..GenOpts::default() },
        1 => GenOpts { keys: KeyPalette::Ident, max_depth: 5, max_nodes: 40, ..GenOpts::default() },
        2 => GenOpts { keys: KeyPalette::Hostile, max_depth: 4, max_nodes: 30, ..GenOpts::default() },
        3 => GenOpts { strings: StrPalette::Ascii, max_depth: 6, max_nodes: 60, ..GenOpts::default() },
        4 => GenOpts { max_depth: 3, max_nodes: if tier_big { 400 } else { 150 }, ..GenOpts::default() },
        _ => GenOpts { max_depth: u.range(1, 8), max_nodes: u.range(2, 80), ..GenOpts::default() },
    };
    let mut j = gj::gen_value(u, &o);
    // wide objects: the duplicate probe switches strategy above 16 fields
    if u.ratio(1, 12) {
        let n = u.range(14, 40);
        let mut f: Vec<(String, J)> = (0..n).map(|i| (format!("k{}", i % u.range(5, 40).max(1)), J::int(i as i64))).collect();
        if u.bool() {
            let k = gj::gen_key(u, &o);
            f.push((k.clone(), J::Null));
            f.insert(u.below(f.len()), (k, gj::gen_scalar(u, &o)));
        }
        f.push(("inner".into(), j));
        j = J::Obj(f);
    }
    if u.ratio(1, 10) {
        let d = u.range(1, 40);
        j = gj::wrap_deep(u, j, d);
    }
    j
}

fn adapt_root(j: &J, raw: Raw, batch: usize) -> J {
    // raw modes are only stated for non-string roots; -j prints no separator, so inside a
    // batch only self-delimiting roots (containers) keep the stream splittable
    match (raw, j) {
        (Raw::None, _) => j.clone(),
        (_, J::Str(_)) => J::Arr(vec![j.clone()]),
        (Raw::J, x) if batch > 1 && !x.is_container() => J::Arr(vec![x.clone()]),
        _ => j.clone(),
    }
}

fn classify(o: &Opts, d: &Doc, args_hash: u64, st: &mut Stats) {
    let f = feats(d);
    st.evals(1);
    st.class(if o.materialised() { "route-materialised" } else { "route-lazy" });
    st.class_if(f.dup, "doc-duplicate-keys");
    st.class_if(f.escape, "doc-escapes");
    st.class_if(f.non_ascii, "doc-non-ascii");
    st.class_if(f.expo, "doc-fraction-or-exponent");
    st.class_if(f.big_int, "doc-integer-past-i64");
    st.class_if(f.dup && o.sort, "dup-keys-under--S");
    st.class_if(f.non_ascii && o.ascii, "non-ascii-under--a");
    st.class_if(!d.model.is_container(), "scalar-root");
    let nt = f.nested && (f.dup || f.escape || f.non_ascii || f.expo) && !o.is_default();
    if nt {
        st.class("nontrivial");
        st.nontrivial(mix64(hash_bytes(&d.text) ^ args_hash));
    }
}

fn classify_opts(o: &Opts, st: &mut Stats) {
    st.class(match o.layout {
        Layout::Default => "layout-default",
        Layout::Compact => "layout--c",
        Layout::Indent(_) => "layout---indent",
        Layout::Tab => "layout---tab",
    });
    st.class_if(o.sort, "opt--S");
    st.class_if(o.ascii, "opt--a");
    st.class_if(o.seq, "opt---seq");
    st.class(match o.raw {
        Raw::None => "raw-none",
        Raw::R => "raw--r",
        Raw::J => "raw--j",
        Raw::Raw0 => "raw---raw-output0",
    });
}

fn replay_input(v: &Value) -> Option<Fail> {
    let inp = &v["input"];
    let args: Vec<String> = inp["args"].as_array().map(|a| a.iter().filter_map(|x| x.as_str().map(|s| s.to_string())).collect()).unwrap_or_default();
    let o = Opts::from_args(&args);
    let text = inp["doc"].as_str().unwrap_or("null").as_bytes().to_vec();
    // "doc_repeat": {"prefix": "[", "count": 129, "middle": "1", "suffix": "]"} builds deep documents compactly
    let text = if let Some(r) = inp.get("doc_nested") {
        let n = r["count"].as_u64().unwrap_or(0) as usize;
        let mut t = r["open"].as_str().unwrap_or("[").repeat(n);
        t.push_str(r["inner"].as_str().unwrap_or("1"));
        t.push_str(&r["close"].as_str().unwrap_or("]").repeat(n));
        t.into_bytes()
    } else {
        text
    };
    let model = match jv::parse_one(&text) {
        Ok(m) => m,
        Err(e) => return Some(Fail::new("C11/replay/bad-document", json!({"err": e.msg}))),
    };
    let framing = if inp["framing"] == "Rs" { Framing::Rs } else { Framing::Plain };
    let d = Doc { model, text };
    match run_docs(&o, &[&d], framing, b"\n", inp["input_via"] == "stdin") {
        Ok(_) => None,
        Err(f) => Some(f),
    }
}

pub fn run(cx: &mut Ctx) {
    if !cli::cli_available() {
        cx.infra(format!("CLI binary not found at {}", cli::cli_path()));
        return;
    }
    cx.assume("O-jsonval (harness RFC 8259 parser; Rust str::parse::<f64>) is the conforming reader; the model value is known by construction from G-json");
    cx.assume("nesting: every node at level <= 255 is inside the CLI's own limit (print_json guard `level < 256`, message 'nesting depth exceeds limit of 256'); deeper documents only assert an error is reported without a crash, the documented nesting-guard panic (exit 101 with that message, eval_generic::assert_nesting_depth) being tolerated there");
    cx.assume("--seq reads RFC 7464 input: a lone document is given plain and RS-framed, batches RS-framed");
    for (name, v) in cx.replays.clone() {
        if v["kind"] == "input" {
            let r = replay_input(&v);
            cx.replay_outcome(&name, r);
        }
    }
    let big = cx.tier == Tier::Thorough;
    cx.check(
        "readback-batches",
        RULE,
        Budget { quick: 2_500, thorough: 90_000, max_len: 12_000 },
        |u, st| {
            let n = match u.below(6) {
                0 => 1,
                1 => u.range(2, 4),
                _ => u.range(5, 24),
            };
            let base: Vec<J> = (0..n).map(|_| gen_doc(u, big)).collect();
            let sep: &[u8] = *u.pick(&[&b"\n"[..], b" ", b"\n\n", b"\t", b"\r\n", b" \n "]);
            for _ in 0..3 {
                let o = gen_opts(u);
                let docs: Vec<Doc> = base
                    .iter()
                    .map(|j| {
                        let m = adapt_root(j, o.raw, n);
                        let ro = gj::render_opts(u);
                        let r = gj::render(&m, u, ro);
                        Doc { model: m, text: r.text }
                    })
                    .collect();
                let refs: Vec<&Doc> = docs.iter().collect();
                let framing = if o.seq && (n > 1 || u.bool()) { Framing::Rs } else { Framing::Plain };
                let via_stdin = u.ratio(1, 4);
                let args = o.args();
                let ah = hash_str(&args.join(" "));
                classify_opts(&o, st);
                st.class(if framing == Framing::Rs { "input-RS-framed" } else { "input-plain" });
                st.class_if(via_stdin, "input-stdin");
                for d in &docs {
                    classify(&o, d, ah, st);
                    st.size(d.text.len());
                }
                st.sample(o.route(), || json!({"args": args, "documents": n, "first": lossy(&docs[0].text[..docs[0].text.len().min(300)])}));
                st.describe(|| json!({"args": args, "documents": n, "framing": format!("{:?}", framing), "stdin": via_stdin, "texts": docs.iter().take(30).map(|d| lossy(&d.text)).collect::<Vec<_>>()}));
                let r = run_batch(&o, &refs, framing, sep, via_stdin, st);
                for d in docs {
                    gj::drop_deep(d.model);
                }
                r?;
            }
            Ok(())
        },
    );
    for c in ["route-lazy", "route-materialised", "doc-duplicate-keys", "dup-keys-under--S", "non-ascii-under--a", "opt---seq", "raw--j", "raw---raw-output0", "raw--r", "layout---tab", "layout---indent", "nontrivial"] {
        cx.require_class("readback-batches", c, 20);
    }

    cx.check(
        "readback-deep",
        "one document per spawn: a small G-json value wrapped in 100..3000 array/object levels (boundaries 127..130 = the strict validator's and serde_json's limit, 254..258 = the printer's guard) x every option set; levels <= 255 must read back exactly, deeper ones must report an error (or still read back) without a crash",
        Budget { quick: 1_200, thorough: 30_000, max_len: 600 },
        |u, st| {
            let go = GenOpts { max_depth: u.range(0, 2), max_nodes: u.range(1, 6), ..GenOpts::default() };
            let inner = gj::gen_value(u, &go);
            let inner_lvl = max_level(&inner);
            let target = match u.below(12) {
                0 => u.range(100, 126),
                1 | 2 => u.range(127, 131),
                3 => u.range(132, 250),
                4 | 5 | 6 => u.range(251, 255),
                7 | 8 => u.range(256, 259),
                9 => u.range(260, 700),
                10 => u.range(700, 3000),
                _ => u.range(2, 99),
            };
            let wraps = target.saturating_sub(inner_lvl).max(1);
            let o = gen_opts(u);
            let model = adapt_root(&gj::wrap_deep(u, inner, wraps), o.raw, 1);
            let ro = gj::RenderOpts { ws: *u.pick(&[gj::Ws::None, gj::Ws::None, gj::Ws::Random, gj::Ws::Pretty, gj::Ws::Spaced]), esc: gj::Esc::Random, outer_ws: u.bool() };
            let r = gj::render(&model, u, ro);
            let d = Doc { model, text: r.text };
            let lvl = max_level(&d.model);
            let cd = d.model.depth();
            let framing = if o.seq && u.bool() { Framing::Rs } else { Framing::Plain };
            let args = o.args();
            classify_opts(&o, st);
            st.evals(1);
            st.class(if o.materialised() { "route-materialised" } else { "route-lazy" });
            st.class(if lvl > GUARD_LEVEL {
                "level>255 (beyond the limit)"
            } else if cd > SEQ_VALIDATOR_DEPTH {
                "nesting 129..256 (past serde_json/validator limit, inside the CLI limit)"
            } else {
                "nesting<=128"
            });
            st.class_if(lvl == GUARD_LEVEL, "level==255");
            st.class_if(lvl == GUARD_LEVEL + 1, "level==256");
            st.class_if(cd > SEQ_VALIDATOR_DEPTH && lvl <= GUARD_LEVEL && o.materialised() && !o.seq, "nesting>128-materialised");
            if lvl <= GUARD_LEVEL && !o.is_default() {
                st.nontrivial(mix64(hash_bytes(&d.text) ^ hash_str(&args.join(" "))));
            }
            st.size(d.text.len());
            st.sample(if lvl > GUARD_LEVEL { "beyond" } else { "inside" }, || json!({"args": args, "level": lvl, "bytes": d.text.len()}));
            st.describe(|| json!({"args": args, "level": lvl, "nesting": cd, "framing": format!("{:?}", framing), "doc": lossy(&d.text)}));
            let r = run_batch(&o, &[&d], framing, b"\n", u.ratio(1, 4), st);
            gj::drop_deep(d.model);
            r
        },
    );
    for c in ["level>255 (beyond the limit)", "level==255", "level==256", "nesting>128-materialised", "nesting<=128"] {
        cx.require_class("readback-deep", c, 10);
    }
    cli::cleanup();
}
