//! C21 — DSV rows and fields follow quote-aware splitting (DESIGN §4 C21).
//! Library level only (the `succinctly jq --input-dsv` layer is added by the CLI driver).
use crate::engine::*;
use crate::gen::dsv::{self, Cfg, Model};
use crate::props::c20::to_config;
use serde_json::json;
use succinctly::dsv::{Dsv, DsvRef};

pub const RULE: &str = "C20's texts (structured rows with empty / plain / quoted fields holding delimiters, separators and doubled quotes / quotes in mid-field; soups; quote runs at chunk edges; 64..400-byte quoted regions; marker-free words; optional final separator, trailing delimiter at EOF, dangling open quote, blank rows) x configurations with distinct special bytes (standard, all pool triples, random). Oracle: harness splitter (quote byte toggles; separator outside quotes ends a row, a final separator starts no extra row; delimiter outside quotes ends a field; raw bytes). Checked: rows()->fields() = model; Dsv::row(n) for n in 0..rows+2 and usize::MAX, DsvRow::get(i) for i in 0..fields+2 and usize::MAX = iteration, None out of range; DsvRef = Dsv; DsvCursor goto_row/next_row/next_field/current_field/position/at_end walks and a random op history against the documented marker-stepping rule; index rank/select/counts = model positions; metamorphic: appending one separator to a non-empty, balanced text not ending in one changes nothing. Non-trivial: >=2 rows, a quoted field containing a delimiter or separator, and an empty field; distinct by hash(text,cfg).";

pub const KNOWN_TRAILING: &str = "C21/trailing-delimiter-at-eof/last-empty-field-missing";

type Rows<'a> = Vec<Vec<&'a [u8]>>;

fn collect_rows<'a>(it: impl Iterator<Item = succinctly::dsv::DsvRow<'a>>, bound: usize) -> Result<Rows<'a>, &'static str> {
    let mut out: Rows<'a> = vec![];
    for row in it {
        if out.len() > bound {
            return Err("rows-iterator-does-not-terminate");
        }
        let mut f = vec![];
        for field in row.fields() {
            if f.len() > bound {
                return Err("fields-iterator-does-not-terminate");
            }
            f.push(field);
        }
        out.push(f);
    }
    Ok(out)
}

fn show_rows(r: &Rows) -> serde_json::Value {
    json!(r.iter().take(12).map(|row| row.iter().take(16).map(|f| show_bytes(f)).collect::<Vec<_>>()).collect::<Vec<_>>())
}

fn model_rows<'a>(text: &'a [u8], m: &Model) -> Rows<'a> {
    m.rows.iter().map(|r| r.iter().map(|&(s, e)| &text[s..e]).collect()).collect()
}

/// `a` equals `b` except that the last row of `a` lacks the final field of `b`'s last row, which is empty.
fn only_last_empty_field_missing(a: &Rows, b: &Rows) -> bool {
    if a.len() != b.len() || b.is_empty() {
        return false;
    }
    let n = b.len() - 1;
    if a[..n] != b[..n] {
        return false;
    }
    let (la, lb) = (&a[n], &b[n]);
    lb.len() == la.len() + 1 && lb[lb.len() - 1].is_empty() && lb[..la.len()] == la[..]
}

fn diff_shape(a: &Rows, e: &Rows) -> &'static str {
    if a.len() != e.len() {
        return if a.len() < e.len() { "too-few-rows" } else { "too-many-rows" };
    }
    for (ra, re) in a.iter().zip(e.iter()) {
        if ra.len() != re.len() {
            return if ra.len() < re.len() { "too-few-fields-in-row" } else { "too-many-fields-in-row" };
        }
        if ra != re {
            return "field-bytes-differ";
        }
    }
    "equal"
}

pub fn check_case(text: &[u8], c: Cfg, u: &mut Src, st: &mut Stats) -> Result<(), Fail> {
    let m = dsv::model(text, c);
    let config = to_config(c);
    let d = Dsv::parse_with_config(text, &config);
    let len = text.len();
    let bound = len + 2;
    let info = || json!({"text_hex": hex(&text[..len.min(4096)]), "len": len, "text": show_bytes(text), "delimiter": c.delimiter, "quote": c.quote, "newline": c.newline});
    let mut known_hit = false;

    // ---- index = model positions (documented rank/select/count semantics)
    let idx = d.index();
    check_eq!("C21/index/marker_count", m.markers.len(), idx.marker_count(), {"case": info()});
    check_eq!("C21/index/row_count=separators-outside-quotes", m.newlines.len(), d.row_count(), {"case": info()});
    check_eq!("C21/index/row_count", m.newlines.len(), idx.row_count(), {"case": info()});
    for k in 0..m.markers.len() + 3 {
        check_eq!("C21/index/markers_select1", m.markers.get(k).copied(), idx.markers_select1(k), {"case": info(), "k": k});
    }
    for k in 0..m.newlines.len() + 3 {
        check_eq!("C21/index/newlines_select1", m.newlines.get(k).copied(), idx.newlines_select1(k), {"case": info(), "k": k});
    }
    {
        let (mut rm, mut rn) = (0usize, 0usize);
        for i in 0..=len + 1 {
            check_eq!("C21/index/markers_rank1", rm, idx.markers_rank1(i), {"case": info(), "i": i});
            check_eq!("C21/index/newlines_rank1", rn, idx.newlines_rank1(i), {"case": info(), "i": i});
            if m.markers.get(rm) == Some(&i) {
                rm += 1;
            }
            if m.newlines.get(rn) == Some(&i) {
                rn += 1;
            }
        }
    }
    st.evals((m.markers.len() + m.newlines.len() + 9 + 2 * (len + 2)) as u64);
    check_eq!("C21/text-accessor", text, d.text(), {"case": info()});

    // ---- iteration = model
    let expect = model_rows(text, &m);
    let iter = match collect_rows(d.rows(), bound) {
        Ok(r) => r,
        Err(e) => fail!(format!("C21/rows-vs-model/{}", e), {"case": info()}),
    };
    st.evals(1 + expect.iter().map(|r| r.len() as u64).sum::<u64>());
    if iter != expect {
        if m.ends_in_unquoted_delimiter && only_last_empty_field_missing(&iter, &expect) {
            known_hit = true;
        } else {
            fail!(format!("C21/rows-vs-model/{}", diff_shape(&iter, &expect)), {"case": info(), "expected_rows": show_rows(&expect), "actual_rows": show_rows(&iter)});
        }
    }

    // ---- borrowed view = owned view
    {
        let r = DsvRef::new(text, idx);
        let via_ref = match collect_rows(r.rows(), bound) {
            Ok(r) => r,
            Err(e) => fail!(format!("C21/DsvRef/{}", e), {"case": info()}),
        };
        if via_ref != iter {
            fail!("C21/DsvRef/rows-differ-from-Dsv", {"case": info(), "dsv": show_rows(&iter), "dsvref": show_rows(&via_ref)});
        }
        check_eq!("C21/DsvRef/row_count", d.row_count(), r.row_count(), {"case": info()});
    }

    // ---- random access = iteration
    let nrows = iter.len();
    let mut row_ns: Vec<usize> = if nrows <= 60 { (0..nrows + 2).collect() } else { (0..50).map(|_| u.range(0, nrows + 1)).chain([0, nrows - 1, nrows, nrows + 1]).collect() };
    row_ns.extend([usize::MAX, usize::MAX - 1, 1 << 32]);
    for &n in &row_ns {
        let r = d.row(n);
        st.evals(1);
        match (r, iter.get(n)) {
            (None, None) => {}
            (Some(_), None) => fail!("C21/row(n)/some-out-of-range", {"case": info(), "n": n, "rows": nrows}),
            (None, Some(_)) => fail!("C21/row(n)/none-in-range", {"case": info(), "n": n, "rows": nrows}),
            (Some(row), Some(exp)) => {
                let got: Vec<&[u8]> = row.fields().take(bound + 1).collect();
                if &got != exp {
                    fail!("C21/row(n)/fields-differ-from-iteration", {"case": info(), "n": n, "iteration": show_rows(&vec![exp.clone()]), "row_n": show_rows(&vec![got])});
                }
                let nf = exp.len();
                let mut cols: Vec<usize> = if nf <= 40 { (0..nf + 2).collect() } else { (0..30).map(|_| u.range(0, nf + 1)).chain([0, nf - 1, nf, nf + 1]).collect() };
                cols.extend([usize::MAX, 1 << 32]);
                for &i in &cols {
                    let g = row.get(i);
                    let e = exp.get(i).copied();
                    st.evals(1);
                    if g != e {
                        let shape = match (g, e) {
                            (Some(_), None) => "some-out-of-range",
                            (None, Some(_)) => "none-in-range",
                            _ => "wrong-field",
                        };
                        fail!(format!("C21/get(i)/{}", shape), {"case": info(), "row": n, "column": i, "fields_in_row": nf, "expected": e.map(show_bytes), "actual": g.map(show_bytes)});
                    }
                }
            }
        }
    }
    // rows handed out by the iterator answer get(i) the same way
    for (n, row) in d.rows().take(bound).enumerate() {
        if n >= 8 {
            break;
        }
        let exp = &iter[n];
        for i in 0..(exp.len() + 2).min(12) {
            let g = row.get(i);
            if g != exp.get(i).copied() {
                fail!("C21/iterated-row.get(i)/differs-from-iteration", {"case": info(), "row": n, "column": i});
            }
        }
    }

    // ---- cursor: documented stepping rule over the model's marker positions
    let row_starts: Vec<usize> = m.rows.iter().map(|r| r[0].0).collect();
    let field_at = |p: usize| -> &[u8] {
        if p >= len {
            return &[];
        }
        let k = m.markers.partition_point(|&x| x < p);
        let end = m.markers.get(k).copied().unwrap_or(len);
        &text[p..end]
    };
    {
        let mut cur = d.cursor();
        check_eq!("C21/cursor/initial-position", 0usize, cur.position(), {"case": info()});
        check_eq!("C21/cursor/at_end", len == 0, cur.at_end(), {"case": info()});
        for &n in &row_ns {
            let ok = cur.goto_row(n);
            st.evals(1);
            check_eq!("C21/cursor/goto_row-result", n < row_starts.len(), ok, {"case": info(), "n": n, "rows": row_starts.len()});
            if ok {
                check_eq!("C21/cursor/goto_row-position", row_starts[n], cur.position(), {"case": info(), "n": n});
                check_eq!("C21/cursor/current_field-after-goto_row", field_at(row_starts[n]), cur.current_field(), {"case": info(), "n": n});
            }
        }
        // next_row walk
        let mut cur = d.cursor();
        if cur.goto_row(0) {
            let mut k = 0usize;
            loop {
                check_eq!("C21/cursor/next_row-walk-position", row_starts.get(k).copied(), Some(cur.position()), {"case": info(), "row": k});
                if !cur.next_row() {
                    break;
                }
                k += 1;
                if k > bound {
                    fail!("C21/cursor/next_row-walk-does-not-terminate", {"case": info()});
                }
            }
            check_eq!("C21/cursor/next_row-walk-count", row_starts.len(), k + 1, {"case": info()});
            check_eq!("C21/cursor/at_end-after-last-next_row", true, cur.at_end(), {"case": info()});
            check_eq!("C21/cursor/next_row-at-end", false, cur.next_row(), {"case": info()});
        }
        // next_field walk: every field of every row in order (the documented rule
        // "false if at end of data" leaves a final empty field at EOF unvisited)
        let mut cur = d.cursor();
        let mut flat: Vec<&[u8]> = vec![];
        if !cur.at_end() {
            loop {
                flat.push(cur.current_field());
                if !cur.next_field() {
                    break;
                }
                if flat.len() > bound {
                    fail!("C21/cursor/next_field-walk-does-not-terminate", {"case": info()});
                }
            }
            check_eq!("C21/cursor/at_end-after-last-next_field", true, cur.at_end(), {"case": info()});
            check_eq!("C21/cursor/current_field-at-end", &[] as &[u8], cur.current_field(), {"case": info()});
            check_eq!("C21/cursor/next_field-at-end", false, cur.next_field(), {"case": info()});
        }
        let mut flat_exp: Vec<&[u8]> = expect.iter().flatten().copied().collect();
        st.evals(flat_exp.len() as u64 + 1);
        if flat != flat_exp {
            let mut tolerated = false;
            if m.ends_in_unquoted_delimiter {
                flat_exp.pop();
                tolerated = flat == flat_exp;
            }
            if !tolerated {
                fail!("C21/cursor/next_field-walk-differs-from-model", {"case": info(), "expected": show_rows(&vec![flat_exp]), "actual": show_rows(&vec![flat])});
            }
        }
        // random op history against the stepping rule
        let mut cur = d.cursor();
        let mut p = 0usize;
        let steps = if len == 0 { 3 } else { 24 };
        for step in 0..steps {
            let op = u.below(4);
            let hist = |what: &str, p: usize| json!({"case": info(), "step": step, "op": what, "model_position": p});
            match op {
                0 => {
                    let n = if u.ratio(1, 8) { row_starts.len() + u.below(3) } else { u.below(row_starts.len().max(1)) };
                    let ok = cur.goto_row(n);
                    check_eq!("C21/cursor/history/goto_row-result", n < row_starts.len(), ok, {"h": hist("goto_row", p), "n": n});
                    if ok {
                        p = row_starts[n];
                    } else {
                        // position after a failed goto_row is not documented: resynchronise
                        p = cur.position().min(len);
                        if cur.position() > len {
                            fail!("C21/cursor/history/position-past-end", {"h": hist("goto_row", p), "n": n});
                        }
                        if p < len && p != 0 && !m.markers.contains(&(p - 1)) {
                            fail!("C21/cursor/history/position-not-at-a-field-start", {"h": hist("goto_row", p), "n": n, "position": p});
                        }
                    }
                }
                1 | 2 => {
                    let set = if op == 1 { &m.markers } else { &m.newlines };
                    let (np, exp_ok) = if p >= len {
                        (p, false)
                    } else {
                        let k = set.partition_point(|&x| x < p);
                        match set.get(k) {
                            Some(&mk) => (mk + 1, mk + 1 < len),
                            None => (len, false),
                        }
                    };
                    let ok = if op == 1 { cur.next_field() } else { cur.next_row() };
                    let name = if op == 1 { "next_field" } else { "next_row" };
                    check_eq!(format!("C21/cursor/history/{}-result", name), exp_ok, ok, {"h": hist(name, p)});
                    p = np;
                }
                _ => {}
            }
            check_eq!("C21/cursor/history/position", p, cur.position(), {"h": hist("position", p)});
            check_eq!("C21/cursor/history/at_end", p >= len, cur.at_end(), {"h": hist("at_end", p)});
            check_eq!("C21/cursor/history/current_field", field_at(p), cur.current_field(), {"h": hist("current_field", p)});
            st.evals(3);
        }
    }

    // ---- metamorphic: appending one separator changes neither rows nor fields
    if len > 0 && m.balanced && text[len - 1] != c.newline {
        let mut t2 = text.to_vec();
        t2.push(c.newline);
        let d2 = Dsv::parse_with_config(&t2, &config);
        let iter2 = match collect_rows(d2.rows(), bound + 1) {
            Ok(r) => r,
            Err(e) => fail!(format!("C21/append-separator/{}", e), {"case": info()}),
        };
        st.evals(1);
        if iter2 != iter {
            if m.ends_in_unquoted_delimiter && only_last_empty_field_missing(&iter, &iter2) {
                known_hit = true;
            } else {
                fail!(format!("C21/append-separator/{}", diff_shape(&iter, &iter2)), {"case": info(), "rows_without": show_rows(&iter), "rows_with_separator_appended": show_rows(&iter2)});
            }
        }
    }

    if known_hit {
        return Err(Fail::new(
            KNOWN_TRAILING,
            json!({"case": info(), "expected_rows": show_rows(&expect), "actual_rows": show_rows(&iter), "note": "text ends in a delimiter outside quotes with no final record separator; the only difference from the model (and from the same text with a separator appended) is the missing last empty field"}),
        ));
    }
    Ok(())
}

fn classify(text: &[u8], c: Cfg, kind: dsv::TextKind, cfg_kind: &str, st: &mut Stats) {
    let m = dsv::model(text, c);
    let has_empty = m.rows.iter().flatten().any(|&(s, e)| s == e);
    let quoted_with_special = m.rows.iter().flatten().any(|&(s, e)| {
        let f = &text[s..e];
        f.contains(&c.quote) && (f.contains(&c.delimiter) || f.contains(&c.newline))
    });
    let nt = m.rows.len() >= 2 && quoted_with_special && has_empty;
    if nt {
        st.nontrivial(mix64(hash_bytes(text) ^ ((c.delimiter as u64) << 16 | (c.quote as u64) << 8 | c.newline as u64)));
    }
    st.class_if(nt, "nontrivial");
    st.class(&format!("text-{:?}", kind));
    st.class(cfg_kind);
    st.class_if(m.rows.is_empty(), "no-rows");
    st.class_if(m.rows.len() >= 2, "rows>=2");
    st.class_if(has_empty, "has-empty-field");
    st.class_if(m.rows.iter().any(|r| r.len() >= 2 && r[r.len() - 1].0 == r[r.len() - 1].1), "empty-field-at-end-of-a-row");
    st.class_if(m.rows.iter().any(|r| r.len() == 1 && r[0].0 == r[0].1), "blank-row");
    st.class_if(quoted_with_special, "quoted-field-with-delimiter-or-separator");
    st.class_if(!m.balanced, "unbalanced-quotes-at-eof");
    st.class_if(m.ends_in_unquoted_newline, "final-separator");
    st.class_if(!text.is_empty() && !m.ends_in_unquoted_newline, "no-final-separator");
    st.class_if(m.ends_in_unquoted_delimiter, "trailing-delimiter-at-eof(known-finding shape)");
    st.class_if(!text.is_empty() && m.balanced && text[text.len() - 1] != c.newline, "append-separator-relation-applies");
    st.class_if(m.rows.iter().flatten().any(|&(s, e)| e - s >= 64), "field>=64-bytes");
    st.class_if(c.newline != b'\n', "newline-not-LF");
    st.class_if(c.quote != b'"', "quote-not-doublequote");
    st.class_if(text.contains(&b'\r') && c.newline == b'\n' && c.delimiter != b'\r' && c.quote != b'\r', "CR-is-ordinary-data");
    st.size(text.len());
}

fn replay_input(v: &serde_json::Value) -> Option<Fail> {
    let t = unhex(v["input"]["text_hex"].as_str().unwrap_or(""));
    let g = |k: &str| v["input"][k].as_u64().unwrap_or(0) as u8;
    let c = Cfg { delimiter: g("delimiter"), quote: g("quote"), newline: g("newline") };
    if c.delimiter == c.quote || c.quote == c.newline || c.delimiter == c.newline {
        return Some(Fail::new("C21/replay/special-bytes-not-distinct", json!({})));
    }
    let mut st = Stats::default();
    let ent = [0u8; 0];
    let mut u = Src::new(&ent);
    check_case(&t, c, &mut u, &mut st).err()
}

pub fn run(cx: &mut Ctx) {
    cx.assume("splitter model, marker positions and the cursor stepping rule are harness code written from the statement and the doc comments of src/dsv (quote byte toggles the in-quote flag; row_count is documented as the separator count)");
    cx.assume("library level only; the sampled `succinctly jq --input-dsv` runs are a separate CLI layer");
    cx.assume("DsvCursor::next_field is documented to return false at end of data, so a final empty field at EOF is not required of the raw cursor walk; it is required of rows()/fields() by the statement");

    for (name, v) in cx.replays.clone() {
        if v["kind"] == "input" {
            let r = replay_input(&v);
            cx.replay_outcome(&name, r);
        }
    }

    cx.note("cases excluded for the known trailing-delimiter finding had every other assertion (index, random access, cursor, DsvRef, append-separator shape) evaluated first; only the missing last empty field is tolerated");
    let max = if cx.tier == Tier::Quick { 1000 } else { 3000 };
    cx.check(
        "rows-fields-vs-model",
        RULE,
        Budget { quick: 400_000, thorough: 12_000_000, max_len: 9000 },
        move |u, st| {
            let (c, cfg_kind) = dsv::cfg(u);
            let (t, kind) = dsv::text(u, c, max);
            classify(&t, c, kind, cfg_kind, st);
            st.sample(&format!("{:?}", kind), || json!({"len": t.len(), "cfg": [c.delimiter, c.quote, c.newline], "head": show_bytes(&t[..t.len().min(100)])}));
            st.describe(|| json!({"text_hex": hex(&t), "text": show_bytes(&t), "delimiter": c.delimiter, "quote": c.quote, "newline": c.newline}));
            check_case(&t, c, u, st)
        },
    );
    for cl in [
        "nontrivial",
        "rows>=2",
        "has-empty-field",
        "empty-field-at-end-of-a-row",
        "blank-row",
        "quoted-field-with-delimiter-or-separator",
        "unbalanced-quotes-at-eof",
        "final-separator",
        "no-final-separator",
        "append-separator-relation-applies",
        "field>=64-bytes",
        "newline-not-LF",
        "CR-is-ordinary-data",
        "no-rows",
    ] {
        cx.require_class("rows-fields-vs-model", cl, 50);
    }

    // every text of length <= 7 over {d, q, n, a} (complete family, standard CSV) + length <= 5 for three more configurations
    let listed = cx.is_known(KNOWN_TRAILING);
    cx.exhaustive(
        "all-short-texts",
        "every text of length 0..=7 over the alphabet {delimiter, quote, separator, 'a'} for CSV, and of length 0..=5 for (TAB,',CR), (0xFF,0x00,0x80), (a,LF,\")",
        true,
        move |shard, nshards, st| {
            let cfgs = [
                (Cfg { delimiter: b',', quote: b'"', newline: b'\n' }, 7usize),
                (Cfg { delimiter: b'\t', quote: b'\'', newline: b'\r' }, 5),
                (Cfg { delimiter: 0xFF, quote: 0x00, newline: 0x80 }, 5),
                (Cfg { delimiter: b'a', quote: b'\n', newline: b'"' }, 5),
            ];
            let ent = [0u8; 0];
            let mut idx = 0usize;
            for (c, maxlen) in cfgs {
                let mut o = b'a';
                while o == c.delimiter || o == c.quote || o == c.newline {
                    o += 1;
                }
                let alpha = [c.delimiter, c.quote, c.newline, o];
                for l in 0..=maxlen {
                    for code in 0..(1usize << (2 * l)) {
                        idx += 1;
                        if idx % nshards != shard {
                            continue;
                        }
                        let t: Vec<u8> = (0..l).map(|i| alpha[(code >> (2 * i)) & 3]).collect();
                        let mut u = Src::new(&ent);
                        st.cases += 1;
                        match check_case(&t, c, &mut u, st) {
                            Ok(()) => {}
                            Err(f) if f.sig == KNOWN_TRAILING && listed => st.known_hit(KNOWN_TRAILING),
                            Err(f) => return Err(f),
                        }
                    }
                }
            }
            Ok(())
        },
    );
}
