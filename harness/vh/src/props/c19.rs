//! C19 — malformed input never crashes the library or the CLI (DESIGN §4 C19).
//!
//! Library subject runs in E3 crash-isolating workers (`check_isolated`); every API call is
//! wrapped in `engine::catch` so a panic becomes a Fail whose signature names the
//! sub-check, the API and the panic site (`C19/<sub>/<api>/panic@<file>/<class>`); a worker
//! that dies (stack overflow, abort, signal) becomes `C19/<sub>/process-abort/<kind>`.
//! All failures of a case are collected; the first one that is not a listed known finding
//! is reported, so an open finding does not mask a second root cause on the same input.
use crate::cli;
use crate::engine::*;
use crate::gen::json as gj;
use crate::gen::soup;
use crate::isolate::IsoOpts;
use serde_json::{json, Value};
use succinctly::dsv::{self, Dsv, DsvConfig, DsvCursor};
use succinctly::jq::document::{DocumentCursor, DocumentElements, DocumentFields, DocumentValue, IndentSpec};
use succinctly::jq::{self, ParserMode};
use succinctly::json::light::{JsonCursor, StandardJson};
use succinctly::json::{JsonIndex, SimpleJsonIndex};
use succinctly::yaml::{YamlCursor, YamlIndex, YamlValue};

pub const RULE: &str = "inputs: raw bytes (5 distributions) | token soups over the JSON / YAML / jq alphabets (incl. invalid UTF-8, non-ASCII) | G-json documents, YAML-Test-Suite / JSON-test-suite / jq-golden / yq-golden fixtures and a block/flow YAML snippet generator, each as-is, truncated at a drawn offset or mutated (byte set, bit flip, delete, token insert, splice, block duplication, indent shift, CRLF, swap) | deep shapes (one unit repeated 200..400k times). Subject per DESIGN: build + validate + bounded iterative walk of every node with every accessor + offsets + printers (library, in crash-isolated workers), 5 CLI commands on the same bytes, 4 parser entry points on program strings. Oracle: no panic / abort / signal / exit 101. Non-trivial: a non-validating loader accepts the input with >= 3 nodes while the strict validator rejects it (DSV: >= 3 markers and an odd number of quote bytes; programs: >= 3 bytes and at least one parser rejects); distinct by hash(input bytes).";

// ---------------------------------------------------------------- failure collection

fn msg_class(msg: &str) -> &'static str {
    let m = msg;
    if m.contains("nesting depth exceeds limit") {
        "depth-guard"
    } else if m.contains("range end index") || m.contains("out of range for slice") {
        if m.contains("range start index") {
            "slice-start-oob"
        } else {
            "slice-end-oob"
        }
    } else if m.contains("range start index") {
        "slice-start-oob"
    } else if m.contains("slice index starts at") {
        "slice-start-after-end"
    } else if m.contains("index out of bounds") {
        "index-oob"
    } else if m.contains("subtract with overflow") {
        "sub-overflow"
    } else if m.contains("add with overflow") {
        "add-overflow"
    } else if m.contains("multiply with overflow") {
        "mul-overflow"
    } else if m.contains("shift") && m.contains("overflow") {
        "shift-overflow"
    } else if m.contains("char boundary") {
        "char-boundary"
    } else if m.contains("Option::unwrap()") {
        "unwrap-none"
    } else if m.contains("Result::unwrap()") {
        "unwrap-err"
    } else if m.contains("assertion") {
        "assert"
    } else if m.contains("unreachable") {
        "unreachable"
    } else if m.contains("capacity overflow") {
        "capacity-overflow"
    } else if m.contains("divide by zero") || m.contains("remainder with a divisor of zero") {
        "div-zero"
    } else {
        "other"
    }
}

/// Signature family of an API name: entry points that share one implementation (the four
/// parser entry points, the YAML printers, ...) map to one family so one root cause gets one
/// signature; the exact API stays in the failure detail.
fn family(api: &str) -> &str {
    match api {
        "jq::parse" | "jq::parse_program" | "jq::parse_with_mode(Yq)" | "jq::parse_program_with_mode(Yq)" => "jq::parse*",
        "YamlCursor::stream_yaml" | "YamlCursor::stream_yaml(trait)" | "YamlCursor::stream_yaml_as_document" | "YamlCursor::stream_yaml_document" | "YamlCursor::documents-yaml" => "YamlCursor::stream_yaml*",
        "YamlCursor::to_json" | "YamlCursor::to_json_document" | "YamlCursor::stream_json" | "YamlCursor::stream_json(trait)" | "YamlCursor::stream_json_document" | "YamlCursor::documents-json" => "YamlCursor::to_json*",
        "JsonCursor::stream_yaml" | "JsonCursor::stream_yaml_as_document" => "JsonCursor::stream_yaml*",
        "dsv::build_index" | "dsv::build_index_scalar" | "Dsv::parse_with_config" => "dsv::build_index*",
        a => a,
    }
}

/// Panic sites in the shared low-level modules are a root cause of their own, whatever
/// accessor reached them: the signature then names the site, not the API.
fn low_level_site(file: &str) -> bool {
    ["src/trees/", "src/bits/", "src/util/", "src/text/", "src/binary"].iter().any(|p| file.starts_with(p))
}

/// Panic site as a path relative to the crate root ("src/json/light.rs"), wherever the
/// checkout of the tree under test lives; line and column dropped so edits do not move it.
fn site_of(loc: &str) -> String {
    let s = panic_sig(loc);
    match s.rfind("/src/") {
        Some(i) => s[i + 1..].to_string(),
        None => s,
    }
}

/// the N of "nesting depth exceeds limit of N"
fn guard_limit(msg: &str) -> Option<usize> {
    let i = msg.find("nesting depth exceeds limit of ")?;
    let rest = &msg[i + "nesting depth exceeds limit of ".len()..];
    let n: String = rest.chars().take_while(|c| c.is_ascii_digit()).collect();
    n.parse().ok()
}

struct Env<'a> {
    sub: &'a str,
    input: &'a [u8],
    known: &'a [String],
    fails: Vec<Fail>,
    tolerated_guard: u32,
    measure: Option<usize>,
    apis: u64,
}

impl<'a> Env<'a> {
    fn new(sub: &'a str, input: &'a [u8], known: &'a [String]) -> Self {
        Env { sub, input, known, fails: vec![], tolerated_guard: 0, measure: None, apis: 0 }
    }
    fn panicked(&mut self, api: &str, p: (String, String)) {
        let (loc, msg) = p;
        if let Some(n) = guard_limit(&msg) {
            let m = *self.measure.get_or_insert_with(|| soup::nesting_measure(self.input));
            if m > n {
                self.tolerated_guard += 1;
                return;
            }
            let sig = format!("C19/lib/{}/depth-guard-below-limit", family(api));
            self.push(sig, api, &loc, &msg);
            return;
        }
        let site = site_of(&loc);
        let sig = if low_level_site(&site) {
            format!("C19/lib/panic@{}/{}", site, msg_class(&msg))
        } else {
            format!("C19/lib/{}/panic@{}/{}", family(api), site, msg_class(&msg))
        };
        self.push(sig, api, &loc, &msg);
    }
    fn push(&mut self, sig: String, api: &str, loc: &str, msg: &str) {
        if self.fails.iter().any(|f| f.sig == sig) {
            return;
        }
        let mut d = json!({"subcheck": self.sub, "api": api, "panic": msg, "location": loc, "input_len": self.input.len(), "input": show_bytes(self.input)});
        if self.input.len() <= 4096 {
            d["input_hex"] = json!(hex(self.input));
        }
        self.fails.push(Fail::new(sig, d));
    }
    fn finish(self, st: &mut Stats) -> Result<(), Fail> {
        st.evals(self.apis);
        st.class_if(self.tolerated_guard > 0, "documented-depth-guard-tolerated");
        let mut first_known = None;
        if std::env::var("VH_C19_SURVEY").is_ok() {
            // development aid: list every failing signature instead of stopping at the first
            for f in self.fails {
                st.class(&format!("FAIL:{}", f.sig));
                st.sample(&format!("FAIL:{}", f.sig), || f.detail.clone());
            }
            return Ok(());
        }
        for f in self.fails {
            if self.known.iter().any(|k| *k == f.sig) {
                if first_known.is_none() {
                    first_known = Some(f);
                } else {
                    st.known_hit(&f.sig);
                }
            } else {
                return Err(f);
            }
        }
        match first_known {
            Some(f) => Err(f), // the engine counts and excludes it
            None => Ok(()),
        }
    }
}

/// Run one API call under catch_unwind; None if it panicked (recorded in env).
macro_rules! api {
    ($env:expr, $name:expr, $e:expr) => {{
        $env.apis += 1;
        let t0 = if trace_on() { Some(std::time::Instant::now()) } else { None };
        let r = catch(|| $e);
        if let Some(t) = t0 {
            if t.elapsed().as_millis() > 300 {
                eprintln!("slow api {} {} ms", $name, t.elapsed().as_millis());
            }
        }
        match r {
            Ok(v) => Some(v),
            Err(p) => {
                $env.panicked($name, p);
                None
            }
        }
    }};
}

/// development aid: VH_C19_TRACE=1 reports API calls slower than 300 ms on stderr
fn trace_on() -> bool {
    static T: std::sync::OnceLock<bool> = std::sync::OnceLock::new();
    *T.get_or_init(|| std::env::var("VH_C19_TRACE").is_ok())
}

struct Sink {
    n: usize,
    cap: usize,
}
impl core::fmt::Write for Sink {
    fn write_str(&mut self, s: &str) -> core::fmt::Result {
        self.n += s.len();
        if self.n > self.cap {
            Err(core::fmt::Error) // bounded output: alias bombs must not exhaust memory
        } else {
            Ok(())
        }
    }
}
fn sink() -> Sink {
    Sink { n: 0, cap: 2 << 20 }
}

/// Offsets to probe: all of them for small inputs, a strided sample + edges otherwise.
fn sample_offsets(len: usize, dense_limit: usize) -> Vec<usize> {
    let mut v: Vec<usize> = if len <= dense_limit {
        (0..len).collect()
    } else {
        let step = len / dense_limit + 1;
        let mut v: Vec<usize> = (0..len).step_by(step).collect();
        v.extend(0..64.min(len));
        v.extend(len.saturating_sub(64)..len);
        v.extend((len / 2).saturating_sub(16)..(len / 2 + 16).min(len));
        v
    };
    v.extend([len, len + 1]);
    v
}

const WALK_BUDGET: usize = 3000;

// ---------------------------------------------------------------- JSON subject

pub const G_BUILD: u32 = 1;
pub const G_VALIDATE: u32 = 2;
pub const G_WALK: u32 = 4;
pub const G_OFFSETS: u32 = 8;
pub const G_STREAM_JSON: u32 = 16;
pub const G_STREAM_YAML: u32 = 32;
pub const G_ALL: u32 = 63;

#[derive(Default)]
struct Summary {
    nodes: usize,
    loader_ok: bool,
    validator_ok: bool,
}

fn json_visit(env: &mut Env, c: JsonCursor<'_, Vec<u64>>) {
    api!(env, "JsonCursor::is_container", c.is_container());
    api!(env, "JsonCursor::text_position", c.text_position());
    api!(env, "JsonCursor::line", c.line());
    api!(env, "JsonCursor::column", c.column());
    api!(env, "JsonCursor::parent", c.parent());
    api!(env, "JsonCursor::text_range", c.text_range());
    api!(env, "JsonCursor::raw_bytes", c.raw_bytes());
    api!(env, "JsonCursor::is_falsy", DocumentCursor::is_falsy(&c));
    let Some(v) = api!(env, "JsonCursor::value", c.value()) else { return };
    api!(env, "StandardJson::as_str", DocumentValue::as_str(&v).map(|s| s.len()));
    api!(env, "StandardJson::as_i64", DocumentValue::as_i64(&v));
    api!(env, "StandardJson::as_f64", DocumentValue::as_f64(&v));
    api!(env, "StandardJson::number_literal", DocumentValue::number_literal(&v).map(|s| s.len()));
    api!(env, "StandardJson::type_name", (DocumentValue::type_name(&v), DocumentValue::is_null(&v), DocumentValue::as_bool(&v), DocumentValue::is_error(&v)));
    match v {
        StandardJson::String(s) => {
            api!(env, "JsonString::as_str", s.as_str().map(|x| x.len()));
            api!(env, "JsonString::raw_bytes", s.raw_bytes().len());
            api!(env, "JsonString::raw_and_escaped", s.raw_and_escaped().0.len());
        }
        StandardJson::Number(n) => {
            api!(env, "JsonNumber::raw_bytes", n.raw_bytes().len());
            api!(env, "JsonNumber::as_i64", n.as_i64());
            api!(env, "JsonNumber::as_f64", n.as_f64());
        }
        StandardJson::Object(f) => {
            api!(env, "JsonFields::is_empty", f.is_empty());
            let mut first_key: Option<String> = None;
            api!(env, "JsonFields::iterate", {
                let mut ff = f;
                let mut k = 0;
                while let Some((field, rest)) = ff.uncons() {
                    let key = field.key();
                    if first_key.is_none() {
                        if let StandardJson::String(s) = &key {
                            first_key = s.as_str().ok().map(|c| c.into_owned());
                        }
                    }
                    let _ = field.value();
                    let _ = field.key_cursor().bp_position() + field.value_cursor().bp_position();
                    ff = rest;
                    k += 1;
                    if k >= 64 {
                        break;
                    }
                }
                k
            });
            let name = first_key.unwrap_or_else(|| "a".to_string());
            api!(env, "JsonFields::find", f.find(&name).is_some());
            api!(env, "JsonFields::find", f.find("\u{0}no such key").is_some());
            api!(env, "JsonFields::find_cursor", f.find_cursor(&name).is_some());
            api!(env, "JsonFields::uncons(trait)", DocumentFields::uncons(&f).is_some());
        }
        StandardJson::Array(e) => {
            api!(env, "JsonElements::is_empty", e.is_empty());
            api!(env, "JsonElements::uncons", e.uncons().is_some());
            api!(env, "JsonElements::uncons_cursor", e.uncons_cursor().is_some());
            api!(env, "JsonElements::get", (e.get(0).is_some(), e.get(1).is_some(), e.get(70).is_some()));
            api!(env, "JsonElements::get_fast", (e.get_fast(0).is_some(), e.get_fast(2).is_some(), DocumentElements::get(&e, 70).is_some()));
            api!(env, "JsonElements::cursor_iter", e.cursor_iter().take(64).count());
        }
        _ => {}
    }
    api!(env, "JsonCursor::children", c.children().take(64).count());
}

fn json_subject(env: &mut Env, text: &[u8], groups: u32) -> Summary {
    let mut sm = Summary::default();
    if groups & G_VALIDATE != 0 {
        if let Some(r) = api!(env, "json::validate", succinctly::json::validate::validate(text).is_ok()) {
            sm.validator_ok = r;
        }
    }
    let Some(index) = api!(env, "JsonIndex::build", JsonIndex::build(text)) else { return sm };
    sm.loader_ok = true;
    let root = index.root(text);
    let mut firsts: Vec<JsonCursor<'_, Vec<u64>>> = vec![];
    if groups & G_WALK != 0 {
        let mut stack = vec![root];
        while let Some(c) = stack.pop() {
            sm.nodes += 1;
            if sm.nodes > WALK_BUDGET {
                break;
            }
            if firsts.len() < 6 || (sm.nodes % 97 == 0 && firsts.len() < 12) {
                firsts.push(c);
            }
            json_visit(env, c);
            if let Some(Some(s)) = api!(env, "JsonCursor::next_sibling", c.next_sibling()) {
                stack.push(s);
            }
            if let Some(Some(f)) = api!(env, "JsonCursor::first_child", c.first_child()) {
                stack.push(f);
            }
        }
    } else {
        sm.nodes = index.bp().len() / 2;
        firsts.push(root);
    }
    if groups & G_OFFSETS != 0 {
        for o in sample_offsets(text.len(), 2048) {
            if let Some(Some(c)) = api!(env, "JsonCursor::cursor_at_offset", root.cursor_at_offset(o)) {
                api!(env, "JsonCursor::value", matches!(c.value(), StandardJson::Error(_)));
                api!(env, "JsonCursor::text_range", c.text_range());
                if groups & G_WALK == 0 {
                    // deep mode: also look at the node found far down
                    json_visit(env, c);
                    let mut p = c;
                    for _ in 0..64 {
                        match api!(env, "JsonCursor::parent", p.parent()) {
                            Some(Some(q)) => p = q,
                            _ => break,
                        }
                    }
                }
            }
            if let Some((l, col)) = api!(env, "JsonIndex::to_line_column", index.to_line_column(o, text)) {
                api!(env, "JsonIndex::to_offset", index.to_offset(l, col, text));
                api!(env, "JsonCursor::cursor_at_position", root.cursor_at_position(l, col).is_some());
            }
        }
        for (l, c) in [(0usize, 0usize), (0, 1), (1, 0), (1, 1 << 20), (1 << 20, 1)] {
            api!(env, "JsonIndex::to_offset", index.to_offset(l, c, text));
            api!(env, "JsonCursor::cursor_at_position", root.cursor_at_position(l, c).is_some());
        }
    }
    for c in firsts {
        if groups & G_STREAM_JSON != 0 {
            api!(env, "JsonCursor::stream_json", DocumentCursor::stream_json(&c, &mut sink(), IndentSpec::COMPACT, false).is_ok());
            api!(env, "JsonCursor::stream_json", DocumentCursor::stream_json(&c, &mut sink(), IndentSpec::spaces(2), true).is_ok());
        }
        if groups & G_STREAM_YAML != 0 {
            api!(env, "JsonCursor::stream_yaml", DocumentCursor::stream_yaml(&c, &mut sink(), IndentSpec::spaces(2), false).is_ok());
            api!(env, "JsonCursor::stream_yaml", DocumentCursor::stream_yaml(&c, &mut sink(), IndentSpec::COMPACT, false).is_ok());
            api!(env, "JsonCursor::stream_yaml_as_document", DocumentCursor::stream_yaml_as_document(&c, &mut sink(), IndentSpec::spaces(4), false).is_ok());
        }
    }
    sm
}

fn simple_subject(env: &mut Env, text: &[u8]) -> Summary {
    let mut sm = Summary::default();
    // classification only (the validator itself is exercised by json-lib)
    sm.validator_ok = catch(|| succinctly::json::validate::validate(text).is_ok()).unwrap_or(false);
    let Some(ix) = api!(env, "SimpleJsonIndex::build", SimpleJsonIndex::build(text)) else { return sm };
    sm.loader_ok = true;
    let n = api!(env, "SimpleJsonIndex::structural_count", ix.structural_count()).unwrap_or(0);
    sm.nodes = n;
    let ks: Vec<usize> = if n <= 1024 { (0..n + 2).collect() } else { (0..n).step_by(n / 1024 + 1).chain([n - 1, n, n + 1]).collect() };
    for k in ks {
        api!(env, "SimpleJsonIndex::structural_pos", ix.structural_pos(k));
    }
    api!(env, "SimpleJsonIndex::structural_pos", ix.structural_pos(n + 1000));
    api!(env, "SimpleJsonIndex::structural_positions", ix.structural_positions(text).take(5000).count());
    let mut kids = 0;
    for p in sample_offsets(text.len(), 1024) {
        api!(env, "SimpleJsonIndex::structural_index", ix.structural_index(p));
        api!(env, "SimpleJsonIndex::find_close", ix.find_close(text, p));
        api!(env, "SimpleJsonIndex::skip_value", ix.skip_value(text, p));
        if kids < 200 {
            if let Some(Some(n)) = api!(env, "SimpleJsonIndex::children", ix.children(text, p).map(|c| c.take(3000).count())) {
                kids += 1 + n / 64;
            }
        }
    }
    sm
}

// ---------------------------------------------------------------- YAML subject

pub const Y_VALIDATE: u32 = 1;
pub const Y_WALK: u32 = 2;
pub const Y_OFFSETS: u32 = 4;
pub const Y_JSON_OUT: u32 = 8;
pub const Y_YAML_OUT: u32 = 16;
pub const Y_ALL: u32 = 31;

fn yaml_visit(env: &mut Env, c: YamlCursor<'_, Vec<u64>>, print: bool) {
    api!(env, "YamlCursor::is_container", c.is_container());
    api!(env, "YamlCursor::text_position", (c.text_position(), c.text_end_position()));
    api!(env, "YamlCursor::line", c.line());
    api!(env, "YamlCursor::column", c.column());
    api!(env, "YamlCursor::document_index", c.document_index());
    api!(env, "YamlCursor::parent", c.parent().is_some());
    api!(env, "YamlCursor::anchor", c.anchor().map(|s| s.len()));
    api!(env, "YamlCursor::explicit_tag", c.explicit_tag().map(|s| s.len()));
    api!(env, "YamlCursor::tag", c.tag());
    api!(env, "YamlCursor::kind", c.kind());
    api!(env, "YamlCursor::style", c.style());
    api!(env, "YamlCursor::alias", (c.alias().map(|s| s.len()), c.is_alias()));
    api!(env, "YamlCursor::line_comment", c.line_comment().map(|s| s.len()));
    api!(env, "YamlCursor::line_comment_raw", c.line_comment_raw().map(|s| s.len()));
    api!(env, "YamlCursor::line_comment_checked", c.line_comment_checked().map(|o| o.map(|s| s.len())).is_ok());
    api!(env, "YamlCursor::raw_bytes", c.raw_bytes().map(|b| b.len()));
    api!(env, "YamlCursor::resolve_alias_target_cursor", c.resolve_alias_target_cursor().is_some());
    api!(env, "YamlCursor::is_falsy", DocumentCursor::is_falsy(&c));
    api!(env, "YamlCursor::children", c.children().take(64).count());
    let Some(v) = api!(env, "YamlCursor::value", c.value()) else { return };
    api!(env, "YamlValue::as_str", DocumentValue::as_str(&v).map(|s| s.len()));
    api!(env, "YamlValue::as_i64", DocumentValue::as_i64(&v));
    api!(env, "YamlValue::as_f64", DocumentValue::as_f64(&v));
    api!(env, "YamlValue::as_bool", DocumentValue::as_bool(&v));
    api!(env, "YamlValue::number_literal", DocumentValue::number_literal(&v).map(|s| s.len()));
    api!(env, "YamlValue::type_name", (DocumentValue::type_name(&v), DocumentValue::is_null(&v), DocumentValue::is_error(&v)));
    api!(env, "YamlValue::as_object", DocumentValue::as_object(&v).is_some());
    api!(env, "YamlValue::as_array", DocumentValue::as_array(&v).is_some());
    api!(env, "YamlValue::key_string", v.key_string().len());
    match v {
        YamlValue::String(s) => {
            api!(env, "YamlString::as_str", s.as_str().map(|x| x.len()).is_ok());
            api!(env, "YamlString::raw_bytes", s.raw_bytes().len());
            api!(env, "YamlString::is_unquoted", s.is_unquoted());
        }
        YamlValue::Mapping(f) => {
            api!(env, "YamlFields::is_empty", f.is_empty());
            let mut first_key: Option<String> = None;
            api!(env, "YamlFields::iterate", {
                let mut ff = f.clone();
                let mut k = 0;
                while let Some((field, rest)) = ff.uncons() {
                    let key = field.key();
                    if first_key.is_none() {
                        first_key = Some(key.key_string().into_owned());
                    }
                    let _ = field.value();
                    let _ = field.key_cursor().bp_position() + field.value_cursor().bp_position();
                    ff = rest;
                    k += 1;
                    if k >= 64 {
                        break;
                    }
                }
                k
            });
            let name = first_key.unwrap_or_else(|| "a".to_string());
            api!(env, "YamlFields::find", (f.find(&name).is_some(), f.find("<<").is_some()));
            api!(env, "YamlFields::find_cursor", f.find_cursor(&name).is_some());
            api!(env, "YamlFields::uncons(trait)", DocumentFields::uncons(&f).is_some());
        }
        YamlValue::Sequence(e) => {
            api!(env, "YamlElements::is_empty", e.is_empty());
            api!(env, "YamlElements::uncons", e.uncons().is_some());
            api!(env, "YamlElements::uncons_cursor", e.uncons_cursor().is_some());
            api!(env, "YamlElements::uncons_resolved_cursor", e.uncons_resolved_cursor().is_some());
            api!(env, "YamlElements::get", (e.get(0).is_some(), e.get(3).is_some(), DocumentElements::get(&e, 70).is_some()));
        }
        YamlValue::Alias { target, .. } => {
            if let Some(t) = target {
                api!(env, "YamlCursor::value(alias-target)", matches!(t.value(), YamlValue::Error(_)));
            }
        }
        _ => {}
    }
    if print {
        api!(env, "YamlCursor::to_json", c.to_json().len());
        api!(env, "YamlCursor::stream_yaml", c.stream_yaml(&mut sink(), IndentSpec::spaces(2), false).is_ok());
        api!(env, "YamlCursor::stream_yaml_as_document", c.stream_yaml_as_document(&mut sink(), IndentSpec::spaces(2), true).is_ok());
        api!(env, "YamlCursor::stream_json", c.stream_json(&mut sink(), IndentSpec::spaces(2), false).is_ok());
    }
}

fn yaml_subject(env: &mut Env, text: &[u8], groups: u32) -> Summary {
    let mut sm = Summary::default();
    if groups & Y_VALIDATE != 0 {
        if let Some(r) = api!(env, "yaml::validate", succinctly::yaml::validate::validate(text).is_ok()) {
            sm.validator_ok = r;
        }
    }
    let Some(built) = api!(env, "YamlIndex::build", YamlIndex::build(text)) else { return sm };
    let Ok(index) = built else { return sm };
    sm.loader_ok = true;
    let root = index.root(text);
    if groups & Y_WALK != 0 {
        let mut stack = vec![root];
        while let Some(c) = stack.pop() {
            sm.nodes += 1;
            if sm.nodes > WALK_BUDGET {
                break;
            }
            let print = groups & (Y_JSON_OUT | Y_YAML_OUT) != 0 && (sm.nodes <= 8 || sm.nodes % 61 == 0);
            yaml_visit(env, c, print);
            if let Some(Some(s)) = api!(env, "YamlCursor::next_sibling", c.next_sibling()) {
                stack.push(s);
            }
            if let Some(Some(f)) = api!(env, "YamlCursor::first_child", c.first_child()) {
                stack.push(f);
            }
        }
    } else {
        sm.nodes = index.bp().len() / 2;
    }
    if groups & Y_OFFSETS != 0 {
        let mut deep_visits = 0;
        for o in sample_offsets(text.len(), 2048) {
            if let Some(Some(c)) = api!(env, "YamlCursor::cursor_at_offset", root.cursor_at_offset(o)) {
                api!(env, "YamlCursor::value", matches!(c.value(), YamlValue::Error(_)));
                if groups & Y_WALK == 0 && (deep_visits < 24 || o + 64 >= text.len()) && deep_visits < 48 {
                    // deep mode: full accessor set on a few nodes far from the root
                    deep_visits += 1;
                    yaml_visit(env, c, false);
                }
            }
            if let Some((l, col)) = api!(env, "YamlIndex::to_line_column", index.to_line_column(o, text)) {
                api!(env, "YamlIndex::to_offset", index.to_offset(l, col, text));
                api!(env, "YamlCursor::cursor_at_position", root.cursor_at_position(l, col).is_some());
            }
        }
        for (l, c) in [(0usize, 0usize), (0, 1), (1, 0), (1, 1 << 20), (1 << 20, 1)] {
            api!(env, "YamlIndex::to_offset", index.to_offset(l, c, text));
            api!(env, "YamlCursor::cursor_at_position", root.cursor_at_position(l, c).is_some());
        }
    }
    if groups & Y_WALK == 0 && groups & (Y_JSON_OUT | Y_YAML_OUT) != 0 && text.len() > 2 {
        // deep mode: print the nodes at the far end first (cheap, and where chains are longest)
        for o in [text.len() - 2, text.len() / 2] {
            let Some(Some(mut c)) = api!(env, "YamlCursor::cursor_at_offset", root.cursor_at_offset(o)) else { continue };
            for up in 0..3 {
                if groups & Y_JSON_OUT != 0 {
                    if up == 0 {
                        // unbounded String: only on the far-end node itself, never on an ancestor
                        api!(env, "YamlCursor::to_json", c.to_json().len());
                    }
                    api!(env, "YamlCursor::stream_json", c.stream_json(&mut sink(), IndentSpec::spaces(2), true).is_ok());
                }
                if groups & Y_YAML_OUT != 0 {
                    api!(env, "YamlCursor::stream_yaml", c.stream_yaml(&mut sink(), IndentSpec::spaces(2), false).is_ok());
                    api!(env, "YamlCursor::stream_yaml_as_document", c.stream_yaml_as_document(&mut sink(), IndentSpec::COMPACT, true).is_ok());
                }
                match api!(env, "YamlCursor::parent", c.parent()) {
                    Some(Some(p)) if p.bp_position() != 0 => c = p,
                    _ => break,
                }
            }
        }
    }
    // `to_json*` build an unbounded String: alias expansion makes that quadratic in the number
    // of nested aliases, so for alias-heavy big inputs only the bounded streaming twin runs at
    // the root (the unbounded one still runs on the far-end nodes above)
    let alias_heavy = text.len() > 16_384 && text.iter().filter(|&&b| b == b'*').count() > 500;
    if groups & Y_JSON_OUT != 0 && !alias_heavy {
        api!(env, "YamlCursor::to_json_document", root.to_json_document().len());
        api!(env, "YamlCursor::to_json", root.to_json().len());
    }
    if groups & Y_JSON_OUT != 0 {
        api!(env, "YamlCursor::stream_json", root.stream_json(&mut sink(), IndentSpec::COMPACT, false).is_ok());
        api!(env, "YamlCursor::stream_json", root.stream_json(&mut sink(), IndentSpec::spaces(2), true).is_ok());
        api!(env, "YamlCursor::stream_json_document", root.stream_json_document(&mut sink(), IndentSpec::spaces(2), false).is_ok());
        api!(env, "YamlCursor::stream_json(trait)", DocumentCursor::stream_json(&root, &mut sink(), IndentSpec::COMPACT, true).is_ok());
    }
    if groups & Y_YAML_OUT != 0 {
        api!(env, "YamlCursor::stream_yaml_document", root.stream_yaml_document(&mut sink(), IndentSpec::spaces(2), false).is_ok());
        api!(env, "YamlCursor::stream_yaml_document", root.stream_yaml_document(&mut sink(), IndentSpec::COMPACT, false).is_ok());
        api!(env, "YamlCursor::stream_yaml_document", root.stream_yaml_document(&mut sink(), IndentSpec::spaces(4), true).is_ok());
        api!(env, "YamlCursor::stream_yaml", root.stream_yaml(&mut sink(), IndentSpec::spaces(2), false).is_ok());
        api!(env, "YamlCursor::stream_yaml(trait)", DocumentCursor::stream_yaml(&root, &mut sink(), IndentSpec::spaces(3), false).is_ok());
    }
    if groups & (Y_JSON_OUT | Y_YAML_OUT) != 0 {
        // every document the way `yq` prints them
        let mut docs = vec![];
        api!(env, "YamlCursor::documents", {
            if let YamlValue::Sequence(mut els) = root.value() {
                while let Some((dc, rest)) = els.uncons_cursor() {
                    docs.push(dc);
                    els = rest;
                    if docs.len() >= 32 {
                        break;
                    }
                }
            }
        });
        for dc in docs {
            if groups & Y_JSON_OUT != 0 && !alias_heavy {
                api!(env, "YamlCursor::documents-json", dc.to_json().len());
            }
            if groups & Y_YAML_OUT != 0 {
                api!(env, "YamlCursor::documents-yaml", dc.stream_yaml_as_document(&mut sink(), IndentSpec::spaces(2), false).is_ok());
                api!(env, "YamlCursor::documents-yaml", dc.stream_yaml_as_document(&mut sink(), IndentSpec::COMPACT, false).is_ok());
            }
        }
    }
    sm
}

// ---------------------------------------------------------------- DSV subject

fn dsv_cursor_walk(c: &mut DsvCursor<'_>) -> usize {
    let mut n = 0;
    loop {
        let _ = c.current_field();
        let _ = c.current_field_str();
        let _ = (c.position(), c.at_end());
        n += 1;
        if !c.next_field() || n > 20_000 {
            break;
        }
    }
    n
}

fn dsv_subject(env: &mut Env, text: &[u8], cfg: &DsvConfig) -> Summary {
    let mut sm = Summary::default();
    api!(env, "dsv::build_index_scalar", dsv::build_index_scalar(text, cfg).row_count());
    let Some(ix) = api!(env, "dsv::build_index", dsv::build_index(text, cfg)) else { return sm };
    sm.loader_ok = true;
    // DSV has no strict validator: "rejects" = unbalanced quoting (odd number of quote bytes)
    sm.validator_ok = text.iter().filter(|&&b| b == cfg.quote_char).count() % 2 == 0;
    let rows = api!(env, "DsvIndex::row_count", (ix.row_count(), ix.marker_count(), ix.is_empty())).map(|t| t.0).unwrap_or(0);
    sm.nodes = ix.marker_count();
    api!(env, "DsvCursor::fields-walk", dsv_cursor_walk(&mut DsvCursor::new(text, &ix)));
    api!(env, "DsvCursor::next_row", {
        let mut c = DsvCursor::new(text, &ix);
        let mut n = 0;
        while c.next_row() && n < 20_000 {
            let _ = c.current_field();
            n += 1;
        }
        n
    });
    let rs: Vec<usize> = if rows <= 300 { (0..rows + 3).collect() } else { (0..rows).step_by(rows / 300 + 1).chain([rows - 1, rows, rows + 1, rows + 2]).collect() };
    for n in rs.iter().copied().chain([rows + 1000]) {
        api!(env, "DsvCursor::goto_row", {
            let mut c = DsvCursor::new(text, &ix);
            let ok = c.goto_row(n);
            let _ = c.current_field();
            ok
        });
    }
    let Some(d) = api!(env, "Dsv::parse_with_config", Dsv::parse_with_config(text, cfg)) else { return sm };
    api!(env, "Dsv::rows", {
        let mut total = 0usize;
        for (i, row) in d.rows().enumerate() {
            if i > 2000 || total > 40_000 {
                break;
            }
            total += row.fields().take(5000).map(|f| f.len()).count();
        }
        total
    });
    let mut budget = 0usize;
    for (i, row) in d.rows().enumerate() {
        if i > 300 || budget > 4000 {
            break;
        }
        let nf = api!(env, "DsvRow::fields", row.fields().take(5000).count()).unwrap_or(0);
        let lim = nf.min(40) + 2;
        budget += lim;
        for k in 0..lim {
            api!(env, "DsvRow::get", row.get(k).map(|f| f.len()));
        }
        api!(env, "DsvRow::get", row.get(nf + 1000).is_some());
    }
    for n in rs {
        api!(env, "Dsv::row", d.row(n).map(|r| r.fields().take(100).count()));
    }
    sm
}

// ---------------------------------------------------------------- parser subject

fn parse_subject(env: &mut Env, prog: &str) -> Summary {
    let mut sm = Summary::default();
    let a = api!(env, "jq::parse", jq::parse(prog).is_ok());
    let b = api!(env, "jq::parse_program", jq::parse_program(prog).is_ok());
    let c = api!(env, "jq::parse_with_mode(Yq)", jq::parse_with_mode(prog, ParserMode::Yq).is_ok());
    let d = api!(env, "jq::parse_program_with_mode(Yq)", jq::parse_program_with_mode(prog, ParserMode::Yq).is_ok());
    let all = [a, b, c, d];
    sm.loader_ok = true; // the string reached the parser; "validator" = all four entry points accept
    sm.validator_ok = all.iter().all(|x| *x == Some(true));
    sm.nodes = prog.len();
    sm
}

// ---------------------------------------------------------------- inputs

pub struct Input {
    pub bytes: Vec<u8>,
    pub class: String,
    /// how to rebuild `bytes` when they are too long to print (deep shapes)
    pub recipe: Option<Value>,
}

impl Input {
    fn new(bytes: Vec<u8>, class: impl Into<String>) -> Input {
        Input { bytes, class: class.into(), recipe: None }
    }
    /// the `input` object of a structured replay file
    pub fn to_json(&self) -> Value {
        match &self.recipe {
            Some(r) if self.bytes.len() > 2048 => r.clone(),
            _ => json!({"hex": hex(&self.bytes), "shown": show_bytes(&self.bytes)}),
        }
    }
}

fn repeat_recipe(pre: &str, open: &str, inner: &str, close: &str, n: usize, closed: bool) -> Input {
    let mut b = pre.as_bytes().to_vec();
    b.extend(soup::deep_shape(open.as_bytes(), inner.as_bytes(), close.as_bytes(), n, closed));
    Input {
        bytes: b,
        class: format!("deep:{}{}", pre, open).replace(' ', "_"),
        recipe: Some(json!({"repeat": {"pre": pre, "open": open, "inner": inner, "close": close, "n": n, "closed": closed}})),
    }
}

fn alias_chain(n: usize) -> Vec<u8> {
    let mut v = b"a0: &a0 x\n".to_vec();
    for i in 1..n {
        v.extend_from_slice(format!("a{}: &a{} *a{}\n", i, i, i - 1).as_bytes());
    }
    v
}

/// anchors nested through aliases: a_i = [*a_(i-1)] (flow) or a block mapping holding the alias
fn alias_nest(n: usize, block: bool) -> Vec<u8> {
    let mut v = if block { b"a0: &a0\n  k: x\n".to_vec() } else { b"a0: &a0 [x]\n".to_vec() };
    for i in 1..n {
        if block {
            v.extend_from_slice(format!("a{}: &a{}\n  k: *a{}\n", i, i, i - 1).as_bytes());
        } else {
            v.extend_from_slice(format!("a{}: &a{} [*a{}]\n", i, i, i - 1).as_bytes());
        }
    }
    v
}

fn merge_chain(n: usize) -> Vec<u8> {
    let mut v = b"a0: &a0 {k: v}\n".to_vec();
    for i in 1..n {
        v.extend_from_slice(format!("a{}: &a{} {{<<: *a{}, k{}: v}}\n", i, i, i - 1, i % 7).as_bytes());
    }
    v
}

/// Rebuild input bytes from the `input` object of a replay file.
pub fn input_from_json(v: &Value) -> Option<Vec<u8>> {
    if let Some(h) = v.get("hex").and_then(|x| x.as_str()) {
        return Some(unhex(h));
    }
    if let Some(t) = v.get("text").and_then(|x| x.as_str()) {
        return Some(t.as_bytes().to_vec());
    }
    if let Some(r) = v.get("repeat") {
        let s = |k: &str| r[k].as_str().unwrap_or("").to_string();
        let mut b = s("pre").into_bytes();
        b.extend(soup::deep_shape(s("open").as_bytes(), s("inner").as_bytes(), s("close").as_bytes(), r["n"].as_u64()? as usize, r["closed"].as_bool().unwrap_or(false)));
        return Some(b);
    }
    if let Some(r) = v.get("staircase") {
        return Some(soup::yaml_staircase(r["n"].as_u64()? as usize, r["seq"].as_bool().unwrap_or(false)));
    }
    if let Some(r) = v.get("alias_chain") {
        return Some(alias_chain(r["n"].as_u64()? as usize));
    }
    if let Some(r) = v.get("alias_nest") {
        return Some(alias_nest(r["n"].as_u64()? as usize, r["block"].as_bool().unwrap_or(false)));
    }
    if let Some(r) = v.get("merge_chain") {
        return Some(merge_chain(r["n"].as_u64()? as usize));
    }
    None
}

fn gjson_text(u: &mut Src) -> Vec<u8> {
    let o = gj::GenOpts { max_depth: u.range(0, 7), max_nodes: u.range(1, 50), ..gj::GenOpts::default() };
    let j = gj::gen_value(u, &o);
    let ro = gj::render_opts(u);
    gj::render(&j, u, ro).text
}

fn truncate(u: &mut Src, mut v: Vec<u8>) -> Vec<u8> {
    if !v.is_empty() {
        let at = if u.ratio(1, 3) { v.len() - 1 - u.below(v.len().min(4)) } else { u.below(v.len()) };
        v.truncate(at);
    }
    v
}

const JSON_EDGES: &[&[u8]] = &[
    b"\"", b"\"\\", b"\"a", b"\"\\u12", b"\"\\ud800", b"\"\\ud800\\u", b"{\"a\":\"", b"[1,\"", b"[\"\\", b"{\"", b"{\"a", b"{\"a\"", b"{\"a\":", b"-", b"[-",
    b"1e", b"[1e", b"-.", b".", b"[.]", b"t", b"[t", b"[tru", b"n", b"f", b"[f]", b"{\"a\":t", b"[\"a\",\"", b"\"\xff", b"[\"\xc3", b"{\"\\", b"[,", b"{,",
    b"{:", b"]", b"}", b"]]", b"[]]", b"{}}", b",", b":", b"[1 2]", b"{\"a\" 1}", b"[\"a\":1]", b"{1:2}", b"{\"a\":1,}", b"[1,]", b" ", b"\n", b"\xef\xbb\xbf[]",
    b"1.2.3", b"[1.2.3,-e,+1]", b"0123", b"--1", b"[\"\\u0000\"]", b"[\"\\ud83d\\ude00\"]", b"[\"\\ude00\"]", b"\"\\u00zz\"", b"\"\\", b"[\"\\\"",
];

fn gen_json_input(u: &mut Src) -> Input {
    let fx = soup::fixtures();
    match u.weighted(&[18, 14, 18, 12, 8, 4, 12, 6, 4, 4]) {
        0 => Input::new(soup::json_soup(u, 40), "src-soup"),
        1 => {
            let t = gjson_text(u);
            Input::new(truncate(u, t), "src-truncated")
        }
        2 => {
            let t = gjson_text(u);
            let (m, op) = soup::mutate(u, t, soup::JSON_TOKENS);
            Input::new(m, format!("src-mutated:{}", op))
        }
        3 if !fx.json.is_empty() => {
            let t = fx.json[u.below(fx.json.len())].clone();
            match u.below(3) {
                0 => Input::new(t, "src-fixture"),
                1 => Input::new(truncate(u, t), "src-fixture-truncated"),
                _ => Input::new(soup::mutate(u, t, soup::JSON_TOKENS).0, "src-fixture-mutated"),
            }
        }
        4 => Input::new(soup::raw_bytes(u, 300), "src-raw"),
        5 => Input::new(gjson_text(u), "src-valid"),
        6 => {
            // edge fragment, alone or appended to / embedded in something valid
            let e = JSON_EDGES[u.below(JSON_EDGES.len())];
            let mut v = match u.below(4) {
                0 => vec![],
                1 => b"[1,".to_vec(),
                2 => b"{\"k\":[".to_vec(),
                _ => {
                    let t = gjson_text(u);
                    let mut t = truncate(u, t);
                    t.truncate(200);
                    t
                }
            };
            v.extend_from_slice(e);
            Input::new(v, "src-edge")
        }
        7 => {
            // moderately deep (no stack risk here; the deep-* sub-checks go further)
            let n = *u.pick(&[3usize, 64, 127, 128, 129, 257, 1000, 3000]);
            let (o, i, c) = *u.pick(&[("[", "", "]"), ("{\"a\":", "1", "}"), ("[{\"k\":", "\"", "}]"), ("[[],", "0", "]")]);
            let mut x = repeat_recipe("", o, i, c, n, u.bool());
            x.class = "src-nested".into();
            x
        }
        8 => {
            // YAML-ish text through the JSON loaders
            let t = if !fx.yaml.is_empty() && u.bool() { fx.yaml[u.below(fx.yaml.len())].clone() } else { soup::yaml_snippet(u) };
            Input::new(t, "src-yaml-text")
        }
        _ => {
            // long scalars / wide containers
            let n = *u.pick(&[63usize, 64, 65, 500, 4000]);
            let unit: &[u8] = *u.pick(&[&b"1,"[..], b"\"a\",", b"\\\\", b"9", b"\"k\":1,", b",", b"\\u00e9", b" "]);
            let mut v = u.pick(&[&b"["[..], b"{", b"\"", b"[\"", b""]).to_vec();
            for _ in 0..n {
                v.extend_from_slice(unit);
            }
            if u.bool() {
                v.extend_from_slice(*u.pick(&[&b"]"[..], b"}", b"\"", b"\"]", b"1]"]));
            }
            Input::new(v, "src-wide")
        }
    }
}

fn gen_yaml_input(u: &mut Src) -> Input {
    let fx = soup::fixtures();
    match u.weighted(&[16, 10, 16, 22, 6, 8, 8, 6, 8]) {
        0 => Input::new(soup::yaml_soup(u, 40), "src-soup"),
        1 => Input::new(soup::yaml_snippet(u), "src-snippet"),
        2 => {
            let t = soup::yaml_snippet(u);
            if u.ratio(1, 3) {
                Input::new(truncate(u, t), "src-truncated")
            } else {
                let (m, op) = soup::mutate(u, t, soup::YAML_TOKENS);
                Input::new(m, format!("src-mutated:{}", op))
            }
        }
        3 if !fx.yaml.is_empty() => {
            let t = fx.yaml[u.below(fx.yaml.len())].clone();
            match u.below(4) {
                0 => Input::new(t, "src-fixture"),
                1 => Input::new(truncate(u, t), "src-fixture-truncated"),
                _ => Input::new(soup::mutate(u, t, soup::YAML_TOKENS).0, "src-fixture-mutated"),
            }
        }
        4 => Input::new(soup::raw_bytes(u, 300), "src-raw"),
        5 => {
            let t = gjson_text(u);
            let (m, _) = soup::mutate(u, t, soup::YAML_TOKENS);
            Input::new(m, "src-json-mutated")
        }
        6 => {
            let n = *u.pick(&[3usize, 30, 100, 127, 128, 129, 300]);
            let (o, i, c) = *u.pick(&[("[", "", "]"), ("{a: ", "b", "}"), ("- ", "a", ""), ("? ", "a", ""), ("[{a: ", "b", "}]"), ("!t ", "a", ""), ("&a ", "a", ""), ("- ? ", "a", "")]);
            let mut x = repeat_recipe("", o, i, c, n, u.bool());
            x.class = "src-nested".into();
            x
        }
        7 => {
            // anchors / aliases / merges in quantity, staircases
            let n = *u.pick(&[2usize, 5, 40, 300]);
            let b = match u.below(5) {
                0 => alias_chain(n),
                1 => merge_chain(n.min(40)),
                2 => soup::yaml_staircase(n.min(120), u.bool()),
                3 => alias_nest(n.min(60), u.bool()),
                _ => {
                    let mut v = b"base: &b {x: 1}\nlist:\n".to_vec();
                    for _ in 0..n {
                        v.extend_from_slice(*u.pick(&[&b"  - *b\n"[..], b"  - <<: *b\n", b"  - &b {<<: *b}\n", b"  - *nope\n", b"  - <<: [*b, *b]\n", b"  - <<: x\n"]));
                    }
                    v
                }
            };
            let b = if u.ratio(1, 3) { soup::mutate(u, b, soup::YAML_TOKENS).0 } else { b };
            Input::new(b, "src-anchors")
        }
        _ => {
            // scalar edge cases: quoted / block scalars cut short, escapes, long lines
            const E: &[&[u8]] = &[
                b"\"", b"'", b"\"\\", b"\"\\x", b"\"\\u12", b"\"\\U0001F6", b"'a''", b"|", b">", b"|\n", b"|2\n a", b">9\n", b"|-\n\n\n", b"a: |\n", b"a: >\n  x\n y",
                b"- |\n x", b"a: \"b\n", b"a: 'b\n", b"? |\n a\n: b", b"\"a\\\n", b"\"a\\\r\n b\"", b"a: \"\\", b"&", b"*", b"!", b"!!", b"!<", b"& a", b"*a: b", b"&a: b",
                b"%", b"%YAML", b"%TAG !", b"--- |", b"--- >\n", b"---\"", b"...x", b"a:\t", b"\t", b"-\t-", b"?\t", b"a: #", b"#", b"a #", b"[#", b"{#", b"\xef\xbb\xbf",
                b"\xef\xbb\xbfa: b", b"a: \xff", b"\xff: a", b"- \xc3", b"\"\xc3", b"'\xe2\x80", b"| \xff", b"a: b\r", b"a: b\r\r\n", b"\r", b"a:\r b", b"a\x00b", b": ",
                b":", b"?", b"-", b"- -", b"? ?", b": :", b"a: b: c", b"a:\n- b\n c", b"[a", b"{a", b"[a,", b"{a:", b"{a: [", b"[a]]", b"}", b"]", b"a: ]", b"a: [b]c",
            ];
            let e = E[u.below(E.len())];
            let mut v = match u.below(4) {
                0 => vec![],
                1 => b"k: v\nl:\n  - ".to_vec(),
                2 => b"- a\n- ".to_vec(),
                _ => {
                    let mut t = soup::yaml_snippet(u);
                    t.truncate(u.below(t.len() + 1));
                    t
                }
            };
            v.extend_from_slice(e);
            if u.ratio(1, 4) {
                v.extend_from_slice(b"\nz: 1\n");
            }
            Input::new(v, "src-edge")
        }
    }
}

fn gen_dsv_input(u: &mut Src) -> (Input, DsvConfig) {
    let pick = |u: &mut Src| -> u8 {
        if u.ratio(3, 4) {
            *u.pick(b",;\t|\"'\n\r :a0")
        } else {
            u.byte()
        }
    };
    let d = pick(u);
    let mut q = pick(u);
    while q == d {
        q = q.wrapping_add(1);
    }
    let mut nl = pick(u);
    while nl == d || nl == q {
        nl = nl.wrapping_add(1);
    }
    let cfg = DsvConfig { delimiter: d, quote_char: q, newline: nl };
    let n = u.len_biased(2000, &[63, 64, 65, 127, 128, 129, 255, 256, 257]);
    let mut v = Vec::with_capacity(n);
    let mode = u.below(4);
    for _ in 0..n {
        let b = match (mode, u.below(10)) {
            (3, _) => u.byte(),
            (_, 0) => d,
            (_, 1) => q,
            (_, 2) => nl,
            (0, _) => b'a',
            (1, 3) => b'\r',
            (1, 4) => u.byte(),
            (2, x) if x < 6 => *[d, q, nl].get(u.below(3)).unwrap(),
            _ => u.range(0x20, 0x7e) as u8,
        };
        v.push(b);
    }
    let class = match mode {
        0 => "src-grid",
        1 => "src-text",
        2 => "src-marker-heavy",
        _ => "src-raw",
    };
    (Input::new(v, class), cfg)
}

fn gen_program(u: &mut Src) -> Input {
    let fx = soup::fixtures();
    match u.weighted(&[36, 22, 10, 14, 8, 10]) {
        0 => Input::new(soup::program_soup(u, 30).into_bytes(), "src-soup"),
        5 => {
            // every string-literal context (interpolated strings, object keys, ."key", import
            // paths, format strings) x hostile escape / content right after the opening quote
            const CTX: &[(&str, &str)] = &[("", ""), ("{", ":1}"), (".", ""), (".[", "]"), ("import ", " as a; ."), ("include ", "; ."), ("@base64 ", ""), ("{a:", "}"), ("ltrimstr(", ")"), ("$__loc__|.", ""), ("{(", "):1}"), ("module {a:", "}; ."), (". as {", ":$x}|$x"), ("@json ", ""), ("test(", ";\"g\")"), ("[", "]"), ("..|", "?"), ("def f: ", "; f")];
            const ESC: &[&str] = &["\\ud800", "\\udc00", "\\ud800\\udc00", "\\ud800\\u0041", "\\udbff\\udfff", "\\u", "\\u1", "\\u12g4", "\\uFFFF", "\\u0000", "\\x", "\\", "\\(", "\\(.", "\\(\"", "\\(\"\\(", "\\q", "\\/", "\\b\\f\\n\\r\\t", "\u{e9}", "\u{1f600}", "\u{0}", "\n", "\\(1)\\(2)", "\\(\\(", "\\()", "\\(;)", "\\u00e9\\(.a)\\ud83d\\ude00"];
            let (pre, post) = *u.pick(CTX);
            let mut s = String::from(pre);
            s.push('"');
            for _ in 0..u.range(0, 2) {
                s.push_str(*u.pick(&["a", "", "k ", "\u{e9}"]));
            }
            for _ in 0..u.range(1, 3) {
                s.push_str(*u.pick(ESC));
            }
            if !u.ratio(1, 5) {
                s.push('"');
                s.push_str(post);
            }
            Input::new(s.into_bytes(), "src-string-contexts")
        }
        1 if !fx.filters.is_empty() => {
            let t = fx.filters[u.below(fx.filters.len())].as_bytes().to_vec();
            let toks: Vec<&[u8]> = soup::JQ_TOKENS.iter().map(|s| s.as_bytes()).collect();
            let (m, _) = soup::mutate(u, t, &toks);
            Input::new(String::from_utf8_lossy(&m).into_owned().into_bytes(), "src-fixture-mutated")
        }
        2 => {
            // random scalar values (any char)
            let n = u.range(0, 24);
            let mut s = String::new();
            for _ in 0..n {
                let c = match u.below(4) {
                    0 => char::from_u32(u.range(0, 0x7f) as u32),
                    1 => char::from_u32(u.range(0x80, 0x7ff) as u32),
                    2 => char::from_u32(u.range(0x800, 0xffff) as u32),
                    _ => char::from_u32(u.range(0x10000, 0x10ffff) as u32),
                };
                s.push(c.unwrap_or('\u{fffd}'));
            }
            Input::new(s.into_bytes(), "src-random-chars")
        }
        3 => {
            // truncated fixture / soup (cuts strings, interpolations, keywords in half)
            let t = if !fx.filters.is_empty() && u.bool() { fx.filters[u.below(fx.filters.len())].clone() } else { soup::program_soup(u, 30) };
            let mut cut = u.below(t.len() + 1);
            while !t.is_char_boundary(cut) {
                cut -= 1;
            }
            Input::new(t[..cut].as_bytes().to_vec(), "src-truncated")
        }
        _ => {
            let n = *u.pick(&[2usize, 10, 60, 200]);
            let (o, i, c) = *u.pick(JQ_DEEP);
            let mut x = repeat_recipe("", o, i, c, n, u.bool());
            x.class = "src-nested".into();
            x
        }
    }
}

const JQ_DEEP: &[(&str, &str, &str)] = &[
    ("(", ".", ")"), ("[", ".", "]"), ("{a:", ".", "}"), (".[", "0", "]"), ("-", "1", ""), ("if . then ", ".", " else . end"), ("\"\\(", ".", ")\""),
    ("not|", ".", ""), (".a", "", ""), ("1+", "1", ""), ("try ", ".", ""), ("def f: ", ".", "; f"), ("reduce . as $x (", ".", "; .)"), (". as $x|", ".", ""),
    (".|", ".", ""), (".//", ".", ""), (".?", "", ""), (".[]?", "", ""), ("..", "", ""), ("[.[]|", ".", "]"), ("{(", ".", "):1}"), ("f(", ".", ")"),
    ("label $a|", ".", ""), ("foreach . as $x (", ".", ";.;.)"), (". as [$a]|", ".", ""), (". and ", ".", ""), (".a=", ".", ""), ("@base64 \"\\(", ".", ")\""),
    ("1,", "1", ""), ("\"a\"+", "\"a\"", ""), ("#", "", ""), ("- -", "1", ""), ("?//", ".", ""), (".a?.b", "", ""), ("import \"a\" as a;", ".", ""),
];

const JSON_DEEP: &[(&str, &str, &str, &str)] = &[
    ("", "[", "", "]"), ("", "{\"a\":", "1", "}"), ("", "[{\"a\":", "", "}]"), ("", "[[],", "0", "]"), ("", "[1,", "", "]"), ("", "{\"a\":{\"b\":1},\"c\":", "2", "}"),
    ("[", ",", "", ""), ("[", "1,", "1", ""), ("{", ":", "", ""), ("{", "\"k\":1,", "\"z\":0", ""), ("\"", "\\\\", "", ""), ("[\"", "\\u00e9", "\"]", ""),
    ("", "9", "", ""), ("[", "[],", "[]", ""), ("", "]", "", ""), ("", "}", "", ""), ("", "[\"", "", "\"]"), ("", "\"", "", ""), ("-", "e", "", ""),
];

const YAML_DEEP: &[(&str, &str, &str, &str)] = &[
    ("", "[", "", "]"), ("", "{a: ", "b", "}"), ("", "- ", "a", ""), ("", "? ", "a", ""), ("", "!t ", "a", ""), ("", "&a ", "a", ""), ("", "[{a: ", "b", "}]"),
    ("", "- - ? ", "a", ""), ("a: ", "\"", "", ""), ("", "a: b\n", "", ""), ("", "- a\n", "", ""), ("", "- &a b\n- *a\n", "", ""), ("", "---\na\n", "", ""),
    ("k: &a v\n", "j: *a\n", "", ""), ("k: &a {x: 1}\n", "j: {<<: *a}\n", "", ""), ("[", "a, ", "b]", ""), ("{", "a: b, ", "c: d}", ""), ("a: |\n", " x\n", "", ""),
    ("", "# c\n", "a", ""), ("a: ", "b ", "", ""), ("'", "''", "'", ""), ("\"", "\\n", "\"", ""), ("", "? a\n", "", ""), ("", "a:\n", "", ""), ("", "-\n", "", ""),
];

fn gen_deep(u: &mut Src, table: &[(&str, &str, &str, &str)], sizes: &[usize]) -> Input {
    let (pre, o, i, c) = table[u.below(table.len())];
    let n = sizes[u.below(sizes.len())];
    repeat_recipe(pre, o, i, c, n, u.bool())
}

/// `printers`: the sub-check prints whole documents (alias expansion makes long alias chains
/// quadratic there, so they are kept shorter; the walk sub-check takes the long ones).
fn gen_deep_yaml(u: &mut Src, sizes: &[usize], printers: bool) -> Input {
    match u.below(10) {
        0 => {
            let n = *u.pick(&[50usize, 200, 600, 1200]);
            let seq = u.bool();
            Input { bytes: soup::yaml_staircase(n, seq), class: "deep:staircase".into(), recipe: Some(json!({"staircase": {"n": n, "seq": seq}})) }
        }
        1 => {
            let n = if printers { *u.pick(&[200usize, 3000]) } else { *u.pick(&[200usize, 5000, 70000]) };
            Input { bytes: alias_chain(n), class: "deep:alias-chain".into(), recipe: Some(json!({"alias_chain": {"n": n}})) }
        }
        2 | 3 => {
            // `<<: *previous` chains: resolution is super-linear, sizes chosen to stay in seconds
            let n = if printers { *u.pick(&[30usize, 150]) } else { *u.pick(&[150usize, 8000, 30_000]) };
            Input { bytes: merge_chain(n), class: "deep:merge-chain".into(), recipe: Some(json!({"merge_chain": {"n": n}})) }
        }
        4 | 5 => {
            let n = *u.pick(&[100usize, 5000, 60_000]);
            let block = u.bool();
            Input { bytes: alias_nest(n, block), class: "deep:alias-nest".into(), recipe: Some(json!({"alias_nest": {"n": n, "block": block}})) }
        }
        _ => gen_deep(u, YAML_DEEP, sizes),
    }
}

// ---------------------------------------------------------------- dispatch

fn dsv_cfg_from(extra: &Value) -> DsvConfig {
    let g = |k: &str, d: u8| extra.get("dsv").and_then(|x| x.get(k)).and_then(|x| x.as_u64()).map(|x| x as u8).unwrap_or(d);
    DsvConfig { delimiter: g("delimiter", b','), quote_char: g("quote", b'"'), newline: g("newline", b'\n') }
}

/// Run the subject of sub-check `sub` on `bytes`. Deterministic in (sub, bytes, extra).
fn run_subject(sub: &str, bytes: &[u8], extra: &Value, known: &[String], st: &mut Stats) -> (Summary, Result<(), Fail>) {
    let mut env = Env::new(sub, bytes, known);
    let sm = match sub {
        "json-lib" => json_subject(&mut env, bytes, G_ALL),
        "json-simple" | "deep-json-simple" => simple_subject(&mut env, bytes),
        "yaml-lib" => yaml_subject(&mut env, bytes, Y_ALL),
        "dsv-lib" => dsv_subject(&mut env, bytes, &dsv_cfg_from(extra)),
        "jq-parse" | "deep-jq-parse" => {
            let s = String::from_utf8_lossy(bytes);
            parse_subject(&mut env, &s)
        }
        "deep-json-build" => json_subject(&mut env, bytes, G_BUILD | G_VALIDATE),
        "deep-json-walk" => json_subject(&mut env, bytes, G_WALK),
        "deep-json-offsets" => json_subject(&mut env, bytes, G_OFFSETS),
        "deep-json-stream-json" => json_subject(&mut env, bytes, G_STREAM_JSON),
        "deep-json-stream-yaml" => json_subject(&mut env, bytes, G_STREAM_YAML),
        "deep-yaml-build" => yaml_subject(&mut env, bytes, Y_VALIDATE),
        "deep-yaml-walk" => yaml_subject(&mut env, bytes, Y_WALK | Y_OFFSETS),
        "deep-yaml-json-out" => yaml_subject(&mut env, bytes, Y_JSON_OUT),
        "deep-yaml-yaml-out" => yaml_subject(&mut env, bytes, Y_YAML_OUT),
        _ => Summary::default(),
    };
    let r = env.finish(st);
    (sm, r)
}

fn classify(inp: &Input, sm: &Summary, st: &mut Stats) {
    st.class(&inp.class);
    st.size(inp.bytes.len());
    st.class(if sm.loader_ok { "loader-accepts" } else { "loader-rejects" });
    st.class(if sm.validator_ok { "validator-accepts" } else { "validator-rejects" });
    if sm.loader_ok && !sm.validator_ok && sm.nodes >= 3 {
        st.class("nontrivial:loader-accepts>=3-nodes,validator-rejects");
        st.nontrivial(hash_bytes(&inp.bytes));
        st.sample(&inp.class, || json!(show_bytes(&inp.bytes)));
    }
    if std::str::from_utf8(&inp.bytes).is_err() {
        st.class("invalid-utf8");
    }
}

// ---------------------------------------------------------------- one-shot isolated replay

/// Child side of `replay_isolated`: VH_C19_ONE=<file with {"subcheck","input"}>.
fn one_shot_child(path: &str) -> ! {
    let lim = libc::rlimit { rlim_cur: 6 << 30, rlim_max: 6 << 30 };
    let z = libc::rlimit { rlim_cur: 0, rlim_max: 0 };
    unsafe {
        libc::setrlimit(libc::RLIMIT_AS, &lim);
        libc::setrlimit(libc::RLIMIT_CORE, &z);
    }
    let v: Value = std::fs::read_to_string(path).ok().and_then(|t| serde_json::from_str(&t).ok()).unwrap_or(Value::Null);
    let sub = v["subcheck"].as_str().unwrap_or("").to_string();
    let out = match input_from_json(&v["input"]) {
        None => json!({"c19_one": 1, "error": "unreadable input"}),
        Some(bytes) => {
            let mut st = Stats::default();
            // strict: nothing is "known" here, every failure is reported to the parent
            let (_, r) = run_subject(&sub, &bytes, &v["input"], &[], &mut st);
            match r {
                Ok(()) => json!({"c19_one": 1, "fail": null}),
                Err(f) => json!({"c19_one": 1, "fail": {"sig": f.sig, "detail": f.detail}}),
            }
        }
    };
    println!("{}", out);
    std::process::exit(0)
}

/// Run one structured input through the subject in a fresh process. Ok(None) = passed.
fn replay_isolated(cx: &Ctx, sub: &str, input: &Value) -> Result<Option<Fail>, String> {
    use std::os::unix::process::ExitStatusExt;
    let dir = format!("{}/out/tmp", cx.root);
    let _ = std::fs::create_dir_all(&dir);
    let stem = format!("{}/c19-one-{}-{:016x}", dir, std::process::id(), hash_str(&format!("{}{}", sub, input)));
    let inp = format!("{}.json", stem);
    let outp = format!("{}.out", stem);
    let errp = format!("{}.err", stem);
    std::fs::write(&inp, json!({"subcheck": sub, "input": input}).to_string()).map_err(|e| e.to_string())?;
    let exe = std::env::current_exe().map_err(|e| e.to_string())?;
    let mut child = std::process::Command::new(exe)
        .args(["run", "C19", "quick"])
        .env("VH_C19_ONE", &inp)
        .env("RUST_BACKTRACE", "0")
        .env_remove("VH_CHILD_SUB")
        .stdin(std::process::Stdio::null())
        .stdout(std::fs::File::create(&outp).map_err(|e| e.to_string())?)
        .stderr(std::fs::File::create(&errp).map_err(|e| e.to_string())?)
        .spawn()
        .map_err(|e| e.to_string())?;
    let t0 = std::time::Instant::now();
    let status = loop {
        match child.try_wait() {
            Ok(Some(s)) => break s,
            Ok(None) if t0.elapsed().as_secs() > 60 => {
                let _ = child.kill();
                let _ = child.wait();
                for p in [&inp, &outp, &errp] {
                    let _ = std::fs::remove_file(p);
                }
                return Err(format!("replay of {} did not finish within 60 s", sub));
            }
            Ok(None) => std::thread::sleep(std::time::Duration::from_millis(3)),
            Err(e) => return Err(e.to_string()),
        }
    };
    let out = std::fs::read_to_string(&outp).unwrap_or_default();
    let err = std::fs::read_to_string(&errp).unwrap_or_default();
    for p in [&inp, &outp, &errp] {
        let _ = std::fs::remove_file(p);
    }
    if status.success() {
        let line = out.lines().rev().find(|l| l.starts_with("{\"c19_one\"")).ok_or("worker printed no result")?;
        let v: Value = serde_json::from_str(line).map_err(|e| e.to_string())?;
        if let Some(e) = v.get("error") {
            return Err(format!("replay worker: {}", e));
        }
        if v["fail"].is_null() {
            return Ok(None);
        }
        return Ok(Some(Fail::new(v["fail"]["sig"].as_str().unwrap_or("?"), v["fail"]["detail"].clone())));
    }
    // the worker died: same signature scheme as isolate.rs
    let kind = if err.contains("has overflowed its stack") || err.contains("stack overflow") {
        "stack-overflow".to_string()
    } else if err.contains("memory allocation of ") || err.contains("capacity overflow") {
        "impossible-allocation".to_string()
    } else if let Some(s) = status.signal() {
        format!("signal-{}", s)
    } else {
        format!("exit-{}", status.code().unwrap_or(-1))
    };
    let tail: String = err.chars().rev().take(400).collect::<String>().chars().rev().collect();
    Ok(Some(Fail::new(format!("C19/{}/process-abort/{}", sub, kind), json!({"stderr_tail": tail, "input": input}))))
}

// ---------------------------------------------------------------- CLI subject (E2)

const CLI_CMDS: &[(&str, &[&str])] = &[
    ("jq-dot", &["jq", "."]),
    ("jq-c", &["jq", "-c", "."]),
    ("yq-dot", &["yq", "."]),
    ("yq-json", &["yq", "-o", "json", "."]),
    ("jq-input-dsv", &["jq", "--input-dsv", ",", "."]),
];

/// "thread 'main' panicked at src/x.rs:1:2:\nmsg" -> (location, message)
fn parse_cli_panic(stderr: &str) -> Option<(String, String)> {
    let i = stderr.find("panicked at ")?;
    let rest = &stderr[i + "panicked at ".len()..];
    let line_end = rest.find('\n').unwrap_or(rest.len());
    let loc = rest[..line_end].trim_end_matches(':').to_string();
    let msg: String = rest[line_end..].trim_start().lines().next().unwrap_or("").to_string();
    // strip the column so engine::panic_sig (which strips one ":N") leaves file only
    let loc = match loc.rsplit_once(':') {
        Some((a, b)) if b.chars().all(|c| c.is_ascii_digit()) && a.contains(':') => a.to_string(),
        _ => loc,
    };
    Some((loc, msg))
}

fn cli_case(bytes: &[u8], st: &mut Stats) -> Result<(), Fail> {
    let path = cli::write_tmp("c19-in", bytes);
    let ps = path.to_string_lossy().to_string();
    let mut first: Option<Fail> = None;
    for (name, args) in CLI_CMDS {
        let mut a: Vec<&str> = args.to_vec();
        a.push(&ps);
        let o = cli::run_with(&cli::cli_path(), &a, None, std::time::Duration::from_secs(10), &[]);
        st.evals(1);
        if o.timed_out {
            st.class("cli-timeout-discarded");
            st.class(&format!("cli-timeout:{}", name));
            st.discard();
            continue;
        }
        st.class(&format!("{}:exit-{}", name, o.code.map(|c| c.to_string()).unwrap_or_else(|| "signal".into())));
        if o.crashed() {
            let err = o.stderr_str();
            let mut sig = match parse_cli_panic(&err) {
                Some((loc, msg)) => format!("C19/cli/panic@{}/{}", site_of(&loc), msg_class(&msg)),
                None => format!("C19/cli/{}/signal-{}", name.split('-').next().unwrap_or(name), o.signal.unwrap_or(0)),
            };
            if let Some(n) = guard_limit(&err) {
                if soup::nesting_measure(bytes) > n {
                    st.class("documented-depth-guard-tolerated");
                    continue;
                }
                sig = format!("C19/cli/depth-guard-below-limit");
            }
            if first.is_none() {
                let tail: String = err.chars().take(600).collect();
                let mut d = json!({"command": args, "exit": o.code, "signal": o.signal, "stderr": tail, "input_len": bytes.len(), "input": show_bytes(bytes)});
                if bytes.len() <= 4096 {
                    d["input_hex"] = json!(hex(bytes));
                }
                first = Some(Fail::new(sig, d));
            }
        }
    }
    let _ = std::fs::remove_file(&path);
    match first {
        Some(f) => Err(f),
        None => Ok(()),
    }
}

fn gen_cli_input(u: &mut Src) -> Input {
    match u.weighted(&[36, 41, 12, 4, 7]) {
        0 => gen_json_input(u),
        1 => gen_yaml_input(u),
        2 => {
            let (mut i, _) = gen_dsv_input(u);
            i.class = format!("dsv-{}", i.class);
            i
        }
        3 => {
            let sizes = [300usize, 3000, 20_000];
            if u.bool() {
                gen_deep(u, JSON_DEEP, &sizes)
            } else {
                let d = gen_deep_yaml(u, &sizes, true);
                if d.class == "deep:alias-nest" && d.bytes.len() > 20_000 {
                    // `yq -o json` expands nested aliases: quadratic output, only small ones here
                    let block = u.bool();
                    Input { bytes: alias_nest(300, block), class: d.class, recipe: Some(json!({"alias_nest": {"n": 300, "block": block}})) }
                } else {
                    d
                }
            }
        }
        _ => {
            // multi-value streams / concatenations
            let mut v = vec![];
            for _ in 0..u.range(2, 5) {
                let mut p = if u.bool() { gen_json_input(u).bytes } else { gen_yaml_input(u).bytes };
                p.truncate(400);
                v.extend(p);
                v.extend_from_slice(*u.pick(&[&b"\n"[..], b" ", b"", b"\n---\n", b"\x1e", b","]));
            }
            Input::new(v, "src-concat")
        }
    }
}

// ---------------------------------------------------------------- run

fn lib_case(sub: &str, inp: Input, extra: Value, known: &[String], st: &mut Stats) -> Result<(), Fail> {
    st.describe(|| {
        let mut d = json!({"subcheck": sub, "class": inp.class, "len": inp.bytes.len(), "input": inp.to_json()});
        if !extra.is_null() {
            d["input"]["dsv"] = extra["dsv"].clone();
        }
        d
    });
    let (sm, r) = run_subject(sub, &inp.bytes, &extra, known, st);
    classify(&inp, &sm, st);
    r
}

pub fn run(cx: &mut Ctx) {
    if let Ok(p) = std::env::var("VH_C19_ONE") {
        one_shot_child(&p);
    }
    if let Ok(spec) = std::env::var("VH_C19_DECODE") {
        // development aid: VH_C19_DECODE=<subcheck>:<entropy hex> prints the generated input
        let (sub, h) = spec.split_once(':').unwrap_or(("", ""));
        let ent = if let Some(idx) = h.strip_prefix('#') {
            // "#<case index>[@max_len]": regenerate the entropy of that case of the search
            use proptest::strategy::{Strategy, ValueTree};
            let (i, ml) = idx.split_once('@').unwrap_or((idx, "2048"));
            let mut runner = runner_for(cx.sub_seed(sub), i.parse().unwrap_or(0));
            EntropyStrategy { max_len: ml.parse().unwrap_or(2048) }.new_tree(&mut runner).map(|t| t.current().0).unwrap_or_default()
        } else {
            unhex(h)
        };
        let mut u = Src::new(&ent);
        let sizes = [300usize, 3000, 30_000, 200_000];
        let inp = match sub {
            "json-lib" | "json-simple" => gen_json_input(&mut u),
            "yaml-lib" => gen_yaml_input(&mut u),
            "jq-parse" => gen_program(&mut u),
            "dsv-lib" => gen_dsv_input(&mut u).0,
            "cli" => gen_cli_input(&mut u),
            "deep-jq-parse" => {
                let (o, i, c) = *u.pick(JQ_DEEP);
                let n = *u.pick(&[300usize, 3000, 30_000]);
                repeat_recipe("", o, i, c, n, u.bool())
            }
            s if s.starts_with("deep-json") => gen_deep(&mut u, JSON_DEEP, &sizes),
            s => gen_deep_yaml(&mut u, &sizes, s.ends_with("-out")),
        };
        println!("{}", json!({"class": inp.class, "len": inp.bytes.len(), "input": inp.to_json(), "hex": if inp.bytes.len() <= 8192 { hex(&inp.bytes) } else { String::new() }}));
        std::process::exit(0);
    }
    cx.assume("the harness build (release + debug-assertions + overflow-checks, default features, runtime SIMD dispatch of this host) is representative of the library; the CLI is /repo's release binary");
    cx.assume("walks are bounded (3000 nodes, 2048 sampled offsets, 2 MiB of printer output per call): a crash reachable only beyond those bounds is not seen");
    cx.assume("a documented depth-guard panic ('nesting depth exceeds limit of N') is tolerated only when an over-approximate nesting measure of the input (bracket depth, indentation levels, indicator runs, alias count) exceeds N");
    let known: Vec<String> = cx.known.iter().filter(|k| k.status == "known").map(|k| k.signature.clone()).collect();
    let fx = soup::fixtures();
    if !cx.is_child() {
        for m in &fx.missing {
            cx.note(format!("fixture source missing, skipped: {}", m));
        }
        cx.extra.insert("fixtures".into(), json!({"yaml": fx.yaml.len(), "json": fx.json.len(), "filters": fx.filters.len()}));
    }

    // 1. committed structured replays, strict, each in its own process (they may abort it)
    if !cx.is_child() {
        for (name, v) in cx.replays.clone() {
            if v["kind"] != "input" {
                continue;
            }
            let sub = v["subcheck"].as_str().unwrap_or("").to_string();
            if sub == "cli" {
                if !cli::cli_available() {
                    cx.infra(format!("CLI binary missing: {}", cli::cli_path()));
                    continue;
                }
                let r = match input_from_json(&v["input"]) {
                    Some(b) => cli_case(&b, &mut Stats::default()).err(),
                    None => Some(Fail::new("C19/replay/unreadable", json!({"file": name}))),
                };
                cx.replay_outcome(&name, r);
                continue;
            }
            match replay_isolated(cx, &sub, &v["input"]) {
                Ok(r) => cx.replay_outcome(&name, r),
                Err(e) => cx.infra(format!("replay {}: {}", name, e)),
            }
        }
    }

    let iso = |chunk: u64| IsoOpts { watchdog_s: 30, rlimit_as_gib: 6, chunk, hang_is_inconclusive: true };
    let k = &known;

    // 2. library, general inputs
    cx.check_isolated("json-lib", "JsonIndex::build + validate + walk (every accessor) + offsets + stream_json/stream_yaml", Budget { quick: 16_000, thorough: 600_000, max_len: 2048 }, iso(1000), |u, st| {
        let inp = gen_json_input(u);
        lib_case("json-lib", inp, Value::Null, k, st)
    });
    cx.check_isolated("json-simple", "SimpleJsonIndex: structural_*, find_close, skip_value, children at every position", Budget { quick: 6_000, thorough: 250_000, max_len: 2048 }, iso(1000), |u, st| {
        let inp = gen_json_input(u);
        lib_case("json-simple", inp, Value::Null, k, st)
    });
    cx.check_isolated("yaml-lib", "YamlIndex::build + validate + walk (every accessor) + offsets + JSON/YAML printers", Budget { quick: 20_000, thorough: 700_000, max_len: 2048 }, iso(1000), |u, st| {
        let inp = gen_yaml_input(u);
        lib_case("yaml-lib", inp, Value::Null, k, st)
    });
    cx.check_isolated("dsv-lib", "build_index (SIMD + scalar) under random distinct (delimiter, quote, newline) + rows/fields/get/goto_row", Budget { quick: 6_000, thorough: 250_000, max_len: 3000 }, iso(1000), |u, st| {
        let (inp, cfg) = gen_dsv_input(u);
        let extra = json!({"dsv": {"delimiter": cfg.delimiter, "quote": cfg.quote_char, "newline": cfg.newline}});
        let quotes = inp.bytes.iter().filter(|&&b| b == cfg.quote_char).count();
        let r = lib_case("dsv-lib", inp, extra, k, st);
        st.class_if(quotes % 2 == 1, "odd-quotes");
        st.class_if(!cfg.delimiter.is_ascii() || !cfg.quote_char.is_ascii() || !cfg.newline.is_ascii(), "non-ascii-config");
        r
    });
    cx.check_isolated("jq-parse", "jq::parse, parse_program, parse_with_mode(Yq), parse_program_with_mode(Yq) on hostile program strings", Budget { quick: 12_000, thorough: 600_000, max_len: 1024 }, iso(2000), |u, st| {
        let inp = gen_program(u);
        lib_case("jq-parse", inp, Value::Null, k, st)
    });
    for (sub, cls) in [("json-lib", "src-soup"), ("json-lib", "src-truncated"), ("json-lib", "src-raw"), ("json-lib", "src-fixture-mutated"), ("json-lib", "src-edge"), ("json-lib", "invalid-utf8"), ("yaml-lib", "src-soup"), ("yaml-lib", "src-fixture-mutated"), ("yaml-lib", "src-truncated"), ("yaml-lib", "src-raw"), ("yaml-lib", "src-edge"), ("yaml-lib", "src-anchors"), ("jq-parse", "src-soup"), ("jq-parse", "src-fixture-mutated"), ("jq-parse", "src-string-contexts"), ("dsv-lib", "odd-quotes")] {
        // fixture-derived classes cannot be demanded when the fixture files are absent
        if !(cls.contains("fixture") && !fx.missing.is_empty()) {
            cx.require_class(sub, cls, 20);
        }
    }
    for sub in ["json-lib", "yaml-lib"] {
        cx.require_class(sub, "nontrivial:loader-accepts>=3-nodes,validator-rejects", 50);
    }

    // 3. library, deep shapes: one API group per sub-check so a dead worker names the group
    let thorough = cx.tier == Tier::Thorough;
    let sizes: Vec<usize> = if thorough { vec![300, 3000, 30_000, 200_000, 1_000_000] } else { vec![300, 3000, 30_000, 200_000] };
    let sz = &sizes;
    let ysizes: Vec<usize> = if thorough { vec![300, 3000, 30_000, 200_000] } else { vec![300, 3000, 30_000] };
    let ysz = &ysizes;
    let deep_budget = Budget { quick: 40, thorough: 400, max_len: 64 };
    let db = || Budget { quick: deep_budget.quick, thorough: deep_budget.thorough, max_len: 64 };
    for sub in ["deep-json-build", "deep-json-walk", "deep-json-offsets", "deep-json-stream-json", "deep-json-stream-yaml", "deep-json-simple"] {
        cx.check_isolated(sub, "one unit repeated n times (n in 300..200k, thorough 1M), one API group", db(), iso(4), |u, st| {
            let inp = gen_deep(u, JSON_DEEP, sz);
            lib_case(sub, inp, Value::Null, k, st)
        });
    }
    for sub in ["deep-yaml-build", "deep-yaml-walk", "deep-yaml-json-out", "deep-yaml-yaml-out"] {
        cx.check_isolated(sub, "flow/indicator units repeated n times (300..30k, thorough 200k), indentation staircases, alias chains, alias nesting and merge chains; one API group", db(), iso(4), |u, st| {
            // parse + validate only is cheap: the build sub-check takes the larger sizes too
            let inp = gen_deep_yaml(u, if sub == "deep-yaml-build" { sz } else { ysz }, sub.ends_with("-out"));
            lib_case(sub, inp, Value::Null, k, st)
        });
    }
    cx.check_isolated("deep-jq-parse", "one program construct repeated n times (n in 300..30k)", Budget { quick: 70, thorough: 700, max_len: 64 }, iso(4), |u, st| {
        let (o, i, c) = *u.pick(JQ_DEEP);
        let n = *u.pick(&[300usize, 3000, 30_000]);
        let inp = repeat_recipe("", o, i, c, n, u.bool());
        lib_case("deep-jq-parse", inp, Value::Null, k, st)
    });

    // 4. CLI (E2), same byte generators (VH_C19_SKIP_CLI: development aid for library-only runs)
    if !cx.skip("cli") && std::env::var("VH_C19_SKIP_CLI").is_err() {
        if !cli::cli_available() {
            cx.infra(format!("CLI binary missing: {}", cli::cli_path()));
        } else {
            cx.check("cli", "jq . | jq -c . | yq . | yq -o json . | jq --input-dsv , . on a file holding the generated bytes; crash = exit 101 or signal", Budget { quick: 3_000, thorough: 60_000, max_len: 2048 }, |u, st| {
                let inp = gen_cli_input(u);
                st.describe(|| json!({"subcheck": "cli", "class": inp.class, "len": inp.bytes.len(), "input": inp.to_json()}));
                st.class(&inp.class);
                st.size(inp.bytes.len());
                let r = cli_case(&inp.bytes, st);
                // non-trivial for the CLI: judged by the library loaders, in-process on small inputs only
                if inp.bytes.len() <= 4096 && !inp.class.starts_with("deep") {
                    let acc = catch(|| YamlIndex::build(&inp.bytes).map(|ix| ix.bp().len() / 2).unwrap_or(0)).unwrap_or(0);
                    let strict = catch(|| succinctly::yaml::validate::validate(&inp.bytes).is_ok() || succinctly::json::validate::validate(&inp.bytes).is_ok()).unwrap_or(false);
                    if acc >= 3 && !strict {
                        st.nontrivial(hash_bytes(&inp.bytes));
                    }
                }
                r
            });
            let to = cx.subs.iter().find(|s| s.name == "cli").and_then(|s| s.stats.classes.get("cli-timeout-discarded").copied()).unwrap_or(0);
            if to > 0 {
                cx.note(format!("cli: {} command run(s) hit the 10 s CLI watchdog and were discarded", to));
            }
            cli::cleanup();
        }
    }
}
