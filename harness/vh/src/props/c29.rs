//! C29 — yq-locate expressions evaluate to the located YAML node (DESIGN §4 C29).
//!
//! Sub-checks
//! * `locate-eval` (library): G-yaml streams (every feature group on, the loader's open
//!   C14 shapes avoided exactly as C14's main search avoids them), keys partly replaced by
//!   a hostile palette (jq keywords, non-ASCII identifiers, `-`/`.`/space/quote/backslash/
//!   `\(`/`$`/digit-first keys). For sampled byte offsets inside every key token, scalar
//!   token and alias token of the span table:
//!   - `yaml::locate_offset_detailed(index, text, o)` must answer and its expression must
//!     be accepted by `jq::parse_with_mode(.., ParserMode::Yq)`;
//!   - route `yaml-cursor`: the expression evaluated with
//!     `eval_generic::eval_with_cursor_using::<YqSemantics>` on `index.root(text)` (the
//!     root cursor: the documents as a sequence) must give the model value of the node (for
//!     a key: the value the key names; for an alias: the anchored value);
//!   - route `slurp-json`: the same parsed expression evaluated with
//!     `jq::eval::<_, YqSemantics>` on the harness-written JSON text of the *model's*
//!     documents collected into an array (this is what `succinctly yq -s` does with the
//!     slurped documents) must give the same model value — this route does not involve the
//!     YAML loader at all, it decides whether the printed path denotes the node;
//!   - `at_offset(o)` on the root cursor must give the token's own value (the key string
//!     for a key, the anchored value for an alias).
//! * `cli-sample`: the same statement through `succinctly yq-locate --offset N FILE`,
//!   `succinctly yq -s -o json --from-file EXPRFILE FILE` (the printed expression byte for
//!   byte: a key may contain NUL, which no argv can carry) and
//!   `succinctly yq -o json 'at_offset(N)' FILE` (one output per document, each the token's
//!   own value) on a small sample; spawns are bounded by a counter (cases x 3 + 240) so
//!   that shrinking a failure cannot run for minutes; a child that cannot be run to
//!   completion discards the case.
//!
//! Not asserted (measured with `VH_C29_MEASURE_RANGE=1`): `LocateResult::byte_range` equals
//! the token span only for single-line tokens (multi-line plain and block scalars report
//! their first line), `value_type` is "string" for every plain scalar — the statement
//! promises neither.
//!
//! Values are compared with the model (`c14::json_matches`: ints exact, strings exact,
//! mapping entries in order).
use crate::cli;
use crate::engine::*;
use crate::gen::json::{to_compact, J, Num, JQ_KEYWORDS};
use crate::gen::yaml::{self as gy, Seg, YOpts, YRole, YSpan, YStyle, Y};
use crate::oracle::jsonval;
use crate::props::c06::std_to_j;
use crate::props::c14;
use serde_json::{json, Value};
use succinctly::jq::eval_generic::{eval_with_cursor_using, to_owned, to_owned_cursor, GenericResult};
use succinctly::jq::{self, OwnedValue, ParserMode, QueryResult, YqSemantics};
use succinctly::json::JsonIndex;
use succinctly::yaml::{locate_offset_detailed, YamlCursor, YamlIndex, YamlValue};

pub const RULE: &str = "G-yaml streams (1-4 documents, block and flow collections, compact entries, every scalar style incl. literal/folded block scalars and multi-line flow scalars, anchors+aliases, comments, blank lines, LF/CRLF/CR, tabs as separation; the loader's open C14 shapes avoided as in C14) whose mapping keys are partly replaced by a hostile palette (every jq keyword, non-ASCII identifiers, kebab/dotted/space/quote/backslash/`\\(`/`$`/digit-first/empty keys); for every key, scalar and alias token of the span table the first, last and sampled interior byte offsets (all offsets of tokens up to 6 bytes): locate_offset_detailed(o) must answer, its expression must parse in yq mode and evaluate (a) on the YAML root cursor (documents as a sequence, generic evaluator, yq semantics) and (b) on the model's documents written as a JSON array (jq::eval with yq semantics = `yq -s`) to the model value of the node (key: the value it names; alias: the anchored value); at_offset(o) must give the token's own value (key: the key string). Non-trivial: token at depth >= 2 inside its document that is reached through a key needing bracket notation / non-ASCII / keyword, or lies in document >= 1, or is an alias, block scalar, multi-line or flow-context token; distinct by hash(text, offset).";

// ------------------------------------------------------------------ reading results

fn owned_to_j(o: &OwnedValue) -> J {
    match o {
        OwnedValue::Null => J::Null,
        OwnedValue::Bool(b) => J::Bool(*b),
        OwnedValue::Int(i) => J::int(*i),
        OwnedValue::Float(f) => J::Num(Num { text: format!("{:e}", f), value: *f, int: None }),
        OwnedValue::NumberLiteral(_, text) => {
            let t = text.to_string();
            match t.parse::<i64>() {
                Ok(i) => J::Num(Num { text: t, value: i as f64, int: Some(i) }),
                Err(_) => J::Num(Num { value: o.as_f64().unwrap_or(f64::NAN), text: t, int: None }),
            }
        }
        OwnedValue::String(s) => J::Str(s.clone()),
        OwnedValue::Array(a) => J::Arr(a.iter().map(owned_to_j).collect()),
        OwnedValue::Object(m) => J::Obj(m.iter().map(|(k, v)| (k.clone(), owned_to_j(v))).collect()),
    }
}

/// One output of the generic evaluator on a YAML cursor, read two ways when it is a
/// cursor (`to_owned_cursor`: what holders of a cursor are told to use;
/// `to_owned(&cursor.value())`: what `yq_runner::evaluate_yaml_cursor` does).
fn yaml_result_to_j(r: GenericResult<YamlValue<'_, Vec<u64>>>) -> Result<Vec<(&'static str, J)>, String> {
    match r {
        GenericResult::One(v) => Ok(vec![("to_owned", owned_to_j(&to_owned(&v)))]),
        GenericResult::OneCursor(c) => Ok(vec![("to_owned_cursor", owned_to_j(&to_owned_cursor(&c))), ("to_owned", owned_to_j(&to_owned(&c.value())))]),
        GenericResult::Owned(o) => Ok(vec![("owned", owned_to_j(&o))]),
        GenericResult::Error(e) => Err(format!("error: {}", e)),
        GenericResult::None => Err("no output".into()),
        GenericResult::Many(v) => Err(format!("{} outputs", v.len())),
        GenericResult::ManyCursor(v) => Err(format!("{} outputs", v.len())),
        GenericResult::ManyOwned(v) => Err(format!("{} outputs", v.len())),
        _ => Err("unexpected result shape".into()),
    }
}

fn query_to_j(r: QueryResult<'_, Vec<u64>>) -> Result<J, String> {
    match r {
        QueryResult::One(v) => std_to_j(v),
        QueryResult::OneCursor(c) => std_to_j(c.value()),
        QueryResult::Owned(o) => Ok(owned_to_j(&o)),
        QueryResult::Error(e) => Err(format!("error: {}", e)),
        QueryResult::None => Err("no output".into()),
        QueryResult::Many(v) => Err(format!("{} outputs", v.len())),
        QueryResult::ManyOwned(v) => Err(format!("{} outputs", v.len())),
        _ => Err("unexpected result shape".into()),
    }
}

// ------------------------------------------------------------------ keys

/// The rule `yaml/locate.rs::can_use_dot_notation` documents by its unit test: a letter
/// or underscore first, then letters, digits, underscores.
fn dot_eligible(k: &str) -> bool {
    let mut cs = k.chars();
    match cs.next() {
        Some(c) if c.is_alphabetic() || c == '_' => cs.all(|c| c.is_alphanumeric() || c == '_'),
        _ => false,
    }
}

fn is_keyword(k: &str) -> bool {
    JQ_KEYWORDS.contains(&k)
}

fn hostile_key(u: &mut Src) -> String {
    match u.below(14) {
        0..=4 => JQ_KEYWORDS[u.below(JQ_KEYWORDS.len())].to_string(),
        5 => format!("é{}", u.below(10)),
        6 => (*u.pick(&["ключ", "值", "naïve", "über", "ｆｕｌｌ", "_", "__loc__", "_x1", "Ünï_9"])).to_string(),
        7 => format!("k-{}", u.below(10)),
        8 => format!("a.b{}", u.below(10)),
        9 => format!("{}x", u.below(10)),
        10 => (*u.pick(&["a b", "q\"x", "b\\s", "\\(x)", "$__loc__", "$v", "a'b", "[0]", ".", "..", "a]", "\"]", "\\", "@base64", "?//", "a|b", "x?", "#", ""])).to_string(),
        11 => (*u.pick(&["at_offset", "at_position", "select", "keys", "length", "first", "input", "env", "line", "document_index", "di", "file_index", "parent", "key", "path", "tag", "anchor", "alias", "style", "kind", "splitDoc", "load"])).to_string(),
        12 => (*u.pick(&["a\nb", "t\tb", "r\rn", "nul\u{0}", "bel\u{7}", "del\u{7f}", "a\u{85}b", "a\u{2028}b", "\u{feff}k"])).to_string(),
        _ => (*u.pick(&["and", "or", "not", "then", "else", "end", "as", "if"])).to_string(),
    }
}

/// Replace about one key in `den` by a hostile key (unique inside its mapping, never `<<`).
fn hostile_keys(u: &mut Src, y: &mut Y, den: u32) {
    match y {
        Y::Seq(a) => a.iter_mut().for_each(|x| hostile_keys(u, x, den)),
        Y::Map(m) => {
            for i in 0..m.len() {
                if u.below(den as usize) == den as usize - 1 {
                    let mut k = hostile_key(u);
                    let mut t = 0;
                    while k == "<<" || m.iter().enumerate().any(|(j, e)| j != i && e.0 == k) {
                        k = format!("{}{}", k, t);
                        t += 1;
                    }
                    m[i].0 = k;
                }
                hostile_keys(u, &mut m[i].1, den);
            }
        }
        _ => {}
    }
}

// ------------------------------------------------------------------ one (stream, offset)

pub struct StreamCx<'a> {
    pub text: &'a [u8],
    pub index: &'a YamlIndex<Vec<u64>>,
    /// the model's documents as one JSON array, compact (harness-written)
    pub slurp_json: &'a [u8],
    pub slurp_index: &'a JsonIndex<Vec<u64>>,
}

pub struct Expect<'a> {
    pub doc: usize,
    pub path: &'a [Seg],
    pub role: &'static str,
    pub style: String,
    pub span: (usize, usize),
    /// value the located expression must produce
    pub target: &'a Y,
    /// value at_offset must produce
    pub own: &'a Y,
}

fn matches_model(j: &J, y: &Y) -> Result<(), String> {
    c14::json_matches(j, y, &mut vec![]).map_err(|m| format!("{} at {}: expected {} got {}", m.kind, m.path, m.expected, m.actual))
}

fn short(y: &Y) -> String {
    let s = to_compact(&gy::to_json_model(y));
    if s.len() > 200 {
        let mut e = 200;
        while !s.is_char_boundary(e) {
            e -= 1;
        }
        format!("{}...", &s[..e])
    } else {
        s
    }
}

/// Failure shapes of open findings: recognised narrowly, reported after the rest of the
/// stream has been checked (the engine excludes and counts them while the finding is open).
const OPEN_SHAPES: &[&str] = &[
    // the index keeps its open positions in the dense (non-monotonic) table — in generated
    // text: an empty document (`---` directly followed by `---` / `...`) whose synthetic null
    // is recorded at text_len — and the reverse lookup binary-searches that unsorted table
    "C29/locate/none/open-positions-not-monotonic(empty-document)",
    "C29/at_offset/no-node/open-positions-not-monotonic(empty-document)",
];

fn info_of(cx: &StreamCx<'_>, ex: &Expect<'_>, o: usize, extra: Value) -> Value {
    let text = cx.text;
    let mut m = json!({
        "offset": o, "role": ex.role, "style": ex.style, "doc": ex.doc, "path": gy::path_str(ex.path),
        "token": show_bytes(&text[ex.span.0..ex.span.1.min(ex.span.0 + 80)]), "span": [ex.span.0, ex.span.1],
        "expected_value": short(ex.target), "yaml": show_bytes(text),
    });
    if let (Some(a), Some(b)) = (m.as_object_mut(), extra.as_object()) {
        for (k, v) in b {
            a.insert(k.clone(), v.clone());
        }
    }
    m
}

/// Everything asserted about one offset; a failure in an open shape does not stop the
/// other half. `Err`: first failure (open-shape failures last).
fn check_offset(cx: &StreamCx<'_>, ex: &Expect<'_>, o: usize, st: &mut Stats) -> Result<(), Fail> {
    let a = check_locate(cx, ex, o, st);
    if let Err(f) = &a {
        if !OPEN_SHAPES.contains(&f.sig.as_str()) {
            return a;
        }
    }
    let b = check_at_offset(cx, ex, o, st);
    if let Err(f) = &b {
        if !OPEN_SHAPES.contains(&f.sig.as_str()) {
            return b;
        }
    }
    a.and(b)
}

fn check_locate(cx: &StreamCx<'_>, ex: &Expect<'_>, o: usize, st: &mut Stats) -> Result<(), Fail> {
    let text = cx.text;
    let root: YamlCursor<'_, Vec<u64>> = cx.index.root(text);
    let role = ex.role;
    let dense = !cx.index.open_positions().is_compact();
    let info = |extra: Value| info_of(cx, ex, o, extra);

    // ---- locate
    let res = match locate_offset_detailed(cx.index, text, o) {
        Some(x) => x,
        None if dense => fail!(OPEN_SHAPES[0], info(json!({"open_positions_compact": false}))),
        None => fail!(format!("C29/locate/none/{}", role), info(json!({}))),
    };
    st.evals(1);
    if std::env::var("VH_C29_MEASURE_RANGE").is_ok() && ex.style != "replay" {
        let same = res.byte_range == ex.span;
        st.class(&format!("measure/range{}span/{}/{}/type={}", if same { "==" } else { "!=" }, role, ex.style, res.value_type));
        if !same {
            st.sample(&format!("range!=span/{}/{}", role, ex.style), || info(json!({"located_range": [res.byte_range.0, res.byte_range.1]})));
        }
    }
    let expr = match catch(|| jq::parse_with_mode(&res.expression, ParserMode::Yq)) {
        Ok(Ok(e)) => e,
        Ok(Err(e)) => fail!(format!("C29/locate-expr/unparseable/{}", role), info(json!({"expression": res.expression, "error": e.to_string()}))),
        Err((loc, msg)) => fail!(format!("C29/locate-expr/parser-panic/{}", role), info(json!({"expression": res.expression, "panic": msg, "at": panic_sig(&loc)}))),
    };
    // (a) on the YAML root cursor
    match yaml_result_to_j(eval_with_cursor_using::<YqSemantics, _>(&expr, root)) {
        Ok(readings) => {
            for (how, got) in readings {
                st.evals(1);
                if let Err(why) = matches_model(&got, ex.target) {
                    fail!(format!("C29/locate-expr/wrong-value/yaml-cursor/{}", role), info(json!({"expression": res.expression, "read_with": how, "actual": to_compact(&got), "mismatch": why, "located_range": [res.byte_range.0, res.byte_range.1], "located_type": res.value_type})));
                }
            }
        }
        Err(e) => fail!(format!("C29/locate-expr/eval-failed/yaml-cursor/{}", role), info(json!({"expression": res.expression, "failure": e}))),
    }
    // (b) on the model's documents collected into a JSON array (`yq -s`)
    match query_to_j(jq::eval::<Vec<u64>, YqSemantics>(&expr, cx.slurp_index.root(cx.slurp_json))) {
        Ok(got) => {
            st.evals(1);
            if let Err(why) = matches_model(&got, ex.target) {
                fail!(format!("C29/locate-expr/wrong-value/slurp-json/{}", role), info(json!({"expression": res.expression, "actual": to_compact(&got), "mismatch": why})));
            }
        }
        Err(e) => fail!(format!("C29/locate-expr/eval-failed/slurp-json/{}", role), info(json!({"expression": res.expression, "failure": e}))),
    }
    Ok(())
}

fn check_at_offset(cx: &StreamCx<'_>, ex: &Expect<'_>, o: usize, st: &mut Stats) -> Result<(), Fail> {
    let text = cx.text;
    let root: YamlCursor<'_, Vec<u64>> = cx.index.root(text);
    let role = ex.role;
    let dense = !cx.index.open_positions().is_compact();
    let info = |extra: Value| info_of(cx, ex, o, extra);
    let prog = format!("at_offset({})", o);
    let expr = match jq::parse_with_mode(&prog, ParserMode::Yq) {
        Ok(e) => e,
        Err(e) => fail!("C29/at_offset/unparseable", info(json!({"program": prog, "error": e.to_string()}))),
    };
    match yaml_result_to_j(eval_with_cursor_using::<YqSemantics, _>(&expr, root)) {
        Ok(readings) => {
            for (how, got) in readings {
                st.evals(1);
                if let Err(why) = matches_model(&got, ex.own) {
                    fail!(format!("C29/at_offset/wrong-value/{}", role), info(json!({"program": prog, "read_with": how, "expected_own": short(ex.own), "actual": to_compact(&got), "mismatch": why})));
                }
            }
        }
        Err(e) if dense && e == format!("error: no node at offset {}", o) => fail!(OPEN_SHAPES[1], info(json!({"program": prog, "failure": e, "open_positions_compact": false}))),
        Err(e) => fail!(format!("C29/at_offset/failed/{}", role), info(json!({"program": prog, "failure": e}))),
    }
    Ok(())
}

fn role_of(sp: &YSpan) -> &'static str {
    match (sp.role, sp.style) {
        (YRole::Key, _) => "key",
        (_, YStyle::Alias) => "alias",
        (_, YStyle::Literal) | (_, YStyle::Folded) => "block-scalar",
        _ => "scalar",
    }
}

fn token_offsets(u: &mut Src, sp: &YSpan) -> Vec<usize> {
    let n = sp.end - sp.start;
    if n <= 6 {
        return (sp.start..sp.end).collect();
    }
    let mut v = vec![sp.start, sp.start + 1, sp.end - 1];
    for _ in 0..2 {
        v.push(u.range(sp.start, sp.end - 1));
    }
    v.sort();
    v.dedup();
    v
}

fn slurp_json_of(stream: &[Y]) -> Vec<u8> {
    to_compact(&J::Arr(stream.iter().map(gy::to_json_model).collect())).into_bytes()
}

fn hostile_on(path: &[Seg]) -> (bool, bool, bool) {
    let mut bracket = false;
    let mut non_ascii = false;
    let mut kw = false;
    for s in path {
        if let Seg::Key(k) = s {
            bracket |= !dot_eligible(k);
            non_ascii |= !k.is_ascii();
            kw |= is_keyword(k);
        }
    }
    (bracket, non_ascii, kw)
}

fn check_stream(stream: &[Y], r: &gy::RenderedYaml, u: &mut Src, st: &mut Stats, max_tokens: usize) -> Result<(), Fail> {
    let text = &r.text[..];
    let index = match YamlIndex::build(text) {
        Ok(i) => i,
        Err(e) => fail!("C29/build-err", {"error": e.to_string(), "yaml": show_bytes(text)}),
    };
    let sj = slurp_json_of(stream);
    let sidx = JsonIndex::build(&sj);
    let cx = StreamCx { text, index: &index, slurp_json: &sj, slurp_index: &sidx };
    let qualifying: Vec<usize> = (0..r.spans.len()).filter(|&i| r.spans[i].end > r.spans[i].start).collect();
    st.class_if(qualifying.len() < r.spans.len(), "stream-has-empty-node(no-offset)");
    let picks: Vec<usize> = if qualifying.len() <= max_tokens {
        qualifying
    } else {
        let mut v: Vec<usize> = (0..max_tokens).map(|_| qualifying[u.below(qualifying.len())]).collect();
        v.sort();
        v.dedup();
        v
    };
    st.class_if(!index.open_positions().is_compact(), "stream-open-positions-not-monotonic");
    let mut known: Option<Fail> = None;
    for si in picks {
        let sp = &r.spans[si];
        let role = role_of(sp);
        let target = match gy::value_at(&stream[sp.doc], &sp.path) {
            Some(v) => v,
            None => fail!("harness/C29/span-path-not-in-model", {"path": gy::path_str(&sp.path)}),
        };
        if sp.role == YRole::Value && *target != sp.value {
            fail!("harness/C29/span-value-differs-from-model", {"path": gy::path_str(&sp.path)});
        }
        let ex = Expect { doc: sp.doc, path: &sp.path, role, style: format!("{:?}", sp.style), span: (sp.start, sp.end), target, own: &sp.value };
        let (bracket, non_ascii, kw) = hostile_on(&sp.path);
        let depth = sp.path.len();
        let special = bracket || non_ascii || kw || sp.doc >= 1 || role == "alias" || role == "block-scalar" || sp.multiline || sp.in_flow;
        for o in token_offsets(u, sp) {
            if depth >= 2 && special {
                st.nontrivial(mix64(hash_bytes(text) ^ (o as u64).rotate_left(40)));
                st.class("offset-nontrivial");
            }
            st.class(&format!("offset-in-{}", role));
            st.class_if(o == sp.start, "offset-first-byte");
            st.class_if(o + 1 == sp.end, "offset-last-byte");
            st.class_if(o > sp.start && o + 1 < sp.end, "offset-interior");
            st.class_if(kw, "offset-keyword-on-path");
            st.class_if(non_ascii, "offset-non-ascii-key-on-path");
            st.class_if(bracket, "offset-bracket-key-on-path");
            st.class_if(sp.doc >= 1, "offset-in-document>=1");
            st.class_if(sp.in_flow, "offset-in-flow-context");
            st.class_if(sp.multiline, "offset-in-multiline-token");
            st.class_if(sp.anchor.is_some(), "offset-in-anchored-token");
            st.class_if(matches!(sp.style, YStyle::Single | YStyle::Double), "offset-in-quoted-token");
            st.class_if(role == "alias" && sp.value.is_container(), "offset-in-alias-to-collection");
            st.class_if(depth == 0, "offset-in-root-scalar");
            st.class_if(depth >= 12, "offset-depth>=12");
            if let Err(f) = check_offset(&cx, &ex, o, st) {
                if !OPEN_SHAPES.contains(&f.sig.as_str()) {
                    return Err(f);
                }
                if known.is_none() {
                    known = Some(f);
                }
            }
        }
    }
    match known {
        Some(f) => Err(f),
        None => Ok(()),
    }
}

// ------------------------------------------------------------------ generation

fn opts_for(cx: &Ctx) -> YOpts {
    let mut o = YOpts::full();
    // the loader's open findings are C14's business: excluded by construction exactly as
    // C14's main search excludes them
    o.avoid = c14::opts_for(cx).avoid;
    // depth of the occasional single-child spine (c14::gen_model keeps ordinary trees at
    // depth <= 8); materialisation is documented to panic past 256 levels
    o.max_depth = if cx.tier == Tier::Quick { 30 } else { 80 };
    o
}

fn gen_case(u: &mut Src, o: &YOpts) -> (Vec<Y>, gy::RenderedYaml) {
    let mut stream = c14::gen_model(u, o);
    let den = *u.pick(&[3u32, 6, 6, 1000]);
    for d in stream.iter_mut() {
        hostile_keys(u, d, den);
    }
    let r = gy::render(&stream, u, o);
    (stream, r)
}

fn classify_stream(stream: &[Y], r: &gy::RenderedYaml, st: &mut Stats) {
    let s = &r.stats;
    st.class(&format!("break-{}", s.line_break));
    st.class_if(stream.len() > 1, "multi-document");
    for (name, n) in s.iter() {
        if ["block_maps", "block_seqs", "flow_maps", "flow_seqs", "compact_seq_entries", "seq_at_parent_indent", "literal", "folded", "single", "double", "plain", "keys_single", "keys_double", "multiline_plain", "multiline_quoted", "multiline_flow", "anchors", "aliases", "trailing_comments", "comment_lines", "tabs_separation", "indented_roots", "no_final_newline", "doc_start_markers"].contains(&name) {
            st.class_if(n > 0, name);
        }
    }
    st.size(r.text.len());
    let cls = if s.aliases > 0 { "alias" } else if s.literal + s.folded > 0 { "block-scalar" } else if s.flow_maps + s.flow_seqs > 0 { "flow" } else { "block" };
    st.sample(cls, || json!({"yaml": show_bytes(&r.text[..r.text.len().min(400)]), "docs": stream.len(), "tokens": r.spans.len()}));
}

fn describe(stream: &[Y], r: &gy::RenderedYaml) -> Value {
    json!({"yaml_hex": hex(&r.text), "yaml": String::from_utf8_lossy(&r.text), "model": stream.iter().map(gy::to_typed_json).collect::<Vec<_>>()})
}

// ------------------------------------------------------------------ replays

fn path_from_json(v: &Value) -> Option<Vec<Seg>> {
    v.as_array()?
        .iter()
        .map(|s| match (s.get("key").and_then(|k| k.as_str()), s.get("idx").and_then(|i| i.as_u64())) {
            (Some(k), _) => Some(Seg::Key(k.to_string())),
            (_, Some(i)) => Some(Seg::Idx(i as usize)),
            _ => None,
        })
        .collect()
}

/// `{"input": {"yaml"| "yaml_hex": .., "model": [typed json per document], "offset": n,
/// "doc": d, "path": [{"key": k} | {"idx": i}, ..], "role": "key"|"scalar"|"alias"|"block-scalar"}}`:
/// the token at `offset` is the key that names / the node at `path` of document `d`.
fn replay_input(v: &Value) -> Option<Fail> {
    let inp = &v["input"];
    let bad = |why: &str| Some(Fail::new("C29/replay/malformed", json!({"why": why})));
    let text: Vec<u8> = match (inp["yaml"].as_str(), inp["yaml_hex"].as_str()) {
        (_, Some(h)) => unhex(h),
        (Some(s), None) => s.as_bytes().to_vec(),
        _ => return bad("no yaml"),
    };
    let model: Vec<Y> = match inp["model"].as_array().and_then(|a| a.iter().map(gy::from_typed_json).collect::<Option<Vec<Y>>>()) {
        Some(m) => m,
        None => return bad("no model"),
    };
    let o = match inp["offset"].as_u64() {
        Some(o) => o as usize,
        None => return bad("no offset"),
    };
    let doc = inp["doc"].as_u64().unwrap_or(0) as usize;
    let path = match path_from_json(&inp["path"]) {
        Some(p) => p,
        None => return bad("no path"),
    };
    let role: &'static str = match inp["role"].as_str() {
        Some("key") => "key",
        Some("alias") => "alias",
        Some("block-scalar") => "block-scalar",
        _ => "scalar",
    };
    let target = match model.get(doc).and_then(|d| gy::value_at(d, &path)) {
        Some(t) => t.clone(),
        None => return bad("path not in model"),
    };
    let own = if role == "key" {
        match path.last() {
            Some(Seg::Key(k)) => Y::Str(k.clone()),
            _ => return bad("key role needs a key path"),
        }
    } else {
        target.clone()
    };
    let index = match YamlIndex::build(&text) {
        Ok(i) => i,
        Err(e) => return Some(Fail::new("C29/build-err", json!({"error": e.to_string()}))),
    };
    let sj = slurp_json_of(&model);
    let sidx = JsonIndex::build(&sj);
    let cx = StreamCx { text: &text, index: &index, slurp_json: &sj, slurp_index: &sidx };
    let ex = Expect { doc, path: &path, role, style: "replay".into(), span: (o, (o + 1).min(text.len())), target: &target, own: &own };
    let mut st = Stats::default();
    // "check": "locate" | "at_offset" restricts the replay to one half (default: both)
    let which = inp["check"].as_str().unwrap_or("both").to_string();
    let run = || match which.as_str() {
        "locate" => check_locate(&cx, &ex, o, &mut st),
        "at_offset" => check_at_offset(&cx, &ex, o, &mut st),
        _ => check_offset(&cx, &ex, o, &mut st),
    };
    match catch(run) {
        Ok(Ok(())) => None,
        Ok(Err(f)) => Some(f),
        Err((loc, msg)) => Some(Fail::new(format!("panic@{}", panic_sig(&loc)), json!({"panic": msg, "location": loc}))),
    }
}

// ------------------------------------------------------------------ CLI sample

/// Spawns left for `cli-sample` (cases x 3 plus an allowance for shrinking a failure):
/// work is bounded by counts, never by time — a shrink run made of process spawns would
/// otherwise take many minutes on a loaded machine.
static SPAWNS_LEFT: std::sync::atomic::AtomicI64 = std::sync::atomic::AtomicI64::new(0);

enum CliErr {
    /// the child could not be run to completion (watchdog, spawn failure, spawn budget):
    /// inconclusive, the case is discarded
    Inconclusive,
    Failed(String),
}

fn spawn(args: &[&str]) -> Result<cli::CliOut, CliErr> {
    if SPAWNS_LEFT.fetch_sub(1, std::sync::atomic::Ordering::SeqCst) <= 0 {
        return Err(CliErr::Inconclusive);
    }
    let out = cli::run(args, None);
    if out.timed_out {
        return Err(CliErr::Inconclusive);
    }
    Ok(out)
}

fn cli_json(args: &[&str]) -> Result<Vec<J>, CliErr> {
    let out = spawn(args)?;
    if !out.ok() {
        return Err(CliErr::Failed(format!("exit {:?} signal {:?}: {}", out.code, out.signal, out.stderr_str().lines().next().unwrap_or(""))));
    }
    jsonval::parse_stream(&out.stdout).map_err(|e| CliErr::Failed(format!("stdout is not a JSON stream: {:?}: {}", e, show_bytes(&out.stdout[..out.stdout.len().min(200)]))))
}

fn check_cli(stream: &[Y], r: &gy::RenderedYaml, u: &mut Src, st: &mut Stats, per_stream: usize) -> Result<(), Fail> {
    let text = &r.text[..];
    let qualifying: Vec<usize> = (0..r.spans.len()).filter(|&i| r.spans[i].end > r.spans[i].start).collect();
    if qualifying.is_empty() {
        st.class("cli-discarded/stream-without-token");
        st.discard();
        return Ok(());
    }
    // (shape predicate of the open finding, read from the library's index of the same text)
    let dense = YamlIndex::build(text).map_or(false, |i| !i.open_positions().is_compact());
    let file = cli::write_tmp("c29.yaml", text);
    let fname = file.to_string_lossy().to_string();
    let res = (|| -> Result<(), Fail> {
        for _ in 0..per_stream {
            let sp = &r.spans[qualifying[u.below(qualifying.len())]];
            let o = u.range(sp.start, sp.end - 1);
            let role = role_of(sp);
            let target = gy::value_at(&stream[sp.doc], &sp.path).expect("span path in model");
            let info = |extra: Value| {
                let mut m = json!({"offset": o, "role": role, "doc": sp.doc, "path": gy::path_str(&sp.path), "expected_value": short(target), "yaml": show_bytes(text)});
                if let (Some(a), Some(b)) = (m.as_object_mut(), extra.as_object()) {
                    for (k, v) in b {
                        a.insert(k.clone(), v.clone());
                    }
                }
                m
            };
            st.class(&format!("cli-offset-in-{}", role));
            let os = o.to_string();
            let loc = match spawn(&["yq-locate", "--offset", &os, &fname]) {
                Ok(l) => l,
                Err(_) => {
                    st.class("cli-discarded/child-inconclusive");
                    st.discard();
                    return Ok(());
                }
            };
            if !loc.ok() && dense && loc.stderr_str().starts_with(&format!("Error: Could not locate position at offset {}", o)) {
                fail!(OPEN_SHAPES[0], info(json!({"exit": loc.code, "stderr": loc.stderr_str().lines().next().unwrap_or("").to_string(), "open_positions_compact": false, "route": "cli"})));
            }
            if !loc.ok() {
                fail!(format!("C29/cli/yq-locate-failed/{}", role), info(json!({"exit": loc.code, "stderr": loc.stderr_str().lines().next().unwrap_or("").to_string()})));
            }
            // the expression exactly as printed goes to `--from-file` (a key may contain any
            // character, NUL included, which no argv can carry)
            let so = loc.stdout_str();
            let expr = so.strip_suffix('\n').unwrap_or(&so).to_string();
            let efile = cli::write_tmp("c29.expr", &loc.stdout);
            let ename = efile.to_string_lossy().to_string();
            st.evals(1);
            let got = cli_json(&["yq", "-s", "-o", "json", "--from-file", &ename, &fname]);
            let _ = std::fs::remove_file(&efile);
            match got {
                Ok(v) if v.len() == 1 => {
                    if let Err(why) = matches_model(&v[0], target) {
                        fail!(format!("C29/cli/locate-expr/wrong-value/{}", role), info(json!({"expression": expr, "actual": to_compact(&v[0]), "mismatch": why})));
                    }
                }
                Ok(v) => fail!(format!("C29/cli/locate-expr/output-count/{}", role), info(json!({"expression": expr, "outputs": v.len()}))),
                Err(CliErr::Inconclusive) => {
                    st.class("cli-discarded/child-inconclusive");
                    st.discard();
                    return Ok(());
                }
                Err(CliErr::Failed(e)) => fail!(format!("C29/cli/locate-expr/failed/{}", role), info(json!({"expression": expr, "failure": e}))),
            }
            st.evals(1);
            // `yq` evaluates the filter once per document: every document's cursor shares the
            // stream's index, so each evaluation of at_offset(o) answers the same node
            let prog = format!("at_offset({})", o);
            match cli_json(&["yq", "-o", "json", &prog, &fname]) {
                Ok(v) if v.len() == stream.len() => {
                    for got in &v {
                        if let Err(why) = matches_model(got, &sp.value) {
                            fail!(format!("C29/cli/at_offset/wrong-value/{}", role), info(json!({"program": prog, "expected_own": short(&sp.value), "actual": to_compact(got), "mismatch": why})));
                        }
                    }
                }
                Ok(v) => fail!(format!("C29/cli/at_offset/output-count/{}", role), info(json!({"program": prog, "outputs": v.len(), "documents": stream.len()}))),
                Err(CliErr::Inconclusive) => {
                    st.class("cli-discarded/child-inconclusive");
                    st.discard();
                    return Ok(());
                }
                Err(CliErr::Failed(e)) if dense && e.contains(&format!("no node at offset {}", o)) => fail!(OPEN_SHAPES[1], info(json!({"program": prog, "failure": e, "open_positions_compact": false, "route": "cli"}))),
                Err(CliErr::Failed(e)) => fail!(format!("C29/cli/at_offset/failed/{}", role), info(json!({"program": prog, "failure": e}))),
            }
            st.evals(1);
        }
        Ok(())
    })();
    let _ = std::fs::remove_file(&file);
    res
}

/// Development aid: `VH_C29_PROBE=<file> vh run C29 quick` prints the index's open
/// positions, IB bits and what locate / at_offset say for every offset of the file.
fn probe(path: &str) {
    let text = std::fs::read(path).expect("probe file");
    println!("text: {}", show_bytes(&text));
    let index = match YamlIndex::build(&text) {
        Ok(i) => i,
        Err(e) => {
            println!("build error: {}", e);
            return;
        }
    };
    let op = index.open_positions();
    println!("open_positions (compact={}): {:?}", op.is_compact(), (0..op.len()).map(|i| op.get(i)).collect::<Vec<_>>());
    println!("ib: {:?}", (0..text.len() + 1).filter(|&i| index.ib_rank1(i + 1) > index.ib_rank1(i)).collect::<Vec<_>>());
    println!("json: {}", index.root(&text).to_json_document());
    for o in 0..text.len() {
        let l = locate_offset_detailed(&index, &text, o);
        println!("  {:3} {:?}: {}", o, text[o] as char, l.map(|r| format!("{} {:?} {}", r.expression, r.byte_range, r.value_type)).unwrap_or_else(|| "None".into()));
    }
}

// ------------------------------------------------------------------ run

pub fn run(cx: &mut Ctx) {
    if let Ok(p) = std::env::var("VH_C29_PROBE") {
        for f in p.split(',') {
            probe(f);
        }
        return;
    }
    cx.assume("expected values come from the G-yaml model and the renderer's span table (the text is never parsed by harness code); G-yaml only emits presentations whose YAML 1.2.2 reading is unambiguous (gen/yaml.rs lists every exclusion)");
    cx.assume("the loader's open C14 findings are excluded by construction exactly as in C14's main search; a stream the loader reads differently from the model is C14's failure, not C29's");
    cx.assume("results are read back through eval_generic::to_owned / to_owned_cursor (YAML) and StandardJson navigation (JSON, checked by C06); the slurp-json route evaluates on a JSON array written by the harness from the model");
    cx.assume("a qualifying offset is any byte of the token's span as recorded by G-yaml: quotes, block-scalar header/indentation/line breaks between the first and last content byte included; anchor prefixes, zero-length (empty) nodes and containers are not tokens");
    for (name, v) in cx.replays.clone() {
        if v["kind"] == "input" {
            let r = replay_input(&v);
            cx.replay_outcome(&name, r);
        }
    }
    let o = opts_for(cx);
    let thorough = cx.tier == Tier::Thorough;
    let max_tokens = if thorough { 40 } else { 24 };
    cx.check(
        "locate-eval",
        RULE,
        Budget { quick: 30_000, thorough: 600_000, max_len: 3000 },
        |u, st| {
            let (stream, r) = gen_case(u, &o);
            classify_stream(&stream, &r, st);
            st.describe(|| describe(&stream, &r));
            match check_stream(&stream, &r, u, st, max_tokens) {
                Ok(()) => Ok(()),
                Err(f) => {
                    // a stream the loader itself reads differently from the model is C14's
                    // failure; it says nothing about locate
                    let mut s2 = Stats::default();
                    if !f.sig.starts_with("harness/") && c14::check_stream(&stream, &r.text, &mut s2).is_err() {
                        st.class("discarded-loader-disagrees-with-model");
                        st.discard();
                        return Ok(());
                    }
                    Err(f)
                }
            }
        },
    );
    for cl in [
        "offset-nontrivial", "offset-in-key", "offset-in-scalar", "offset-in-alias", "offset-in-block-scalar", "offset-first-byte", "offset-last-byte",
        "offset-interior", "offset-keyword-on-path", "offset-non-ascii-key-on-path", "offset-bracket-key-on-path", "offset-in-document>=1",
        "offset-in-flow-context", "offset-in-multiline-token", "offset-in-anchored-token", "offset-in-quoted-token", "offset-in-alias-to-collection",
        "offset-in-root-scalar", "offset-depth>=12", "break-CRLF", "break-CR", "multi-document", "block_maps", "block_seqs", "flow_maps", "flow_seqs", "literal", "folded",
        "keys_single", "keys_double", "compact_seq_entries", "seq_at_parent_indent",
    ] {
        cx.require_class("locate-eval", cl, 20);
    }

    if cli::cli_available() {
        let per_stream = 1;
        let budget = Budget { quick: 100, thorough: 3_000, max_len: 3000 };
        SPAWNS_LEFT.store(cx.cases(&budget) as i64 * 3 + 240, std::sync::atomic::Ordering::SeqCst);
        cx.check(
            "cli-sample",
            "the same statement through the binary: `succinctly yq-locate --offset N FILE` prints the expression; `succinctly yq -s -o json EXPR FILE` must print the model value; `succinctly yq -o json 'at_offset(N)' FILE` must print the token's own value once per document; 1 random token offset per generated stream",
            budget,
            |u, st| {
                let (stream, r) = gen_case(u, &o);
                st.describe(|| describe(&stream, &r));
                st.class_if(stream.len() > 1, "multi-document");
                match check_cli(&stream, &r, u, st, per_stream) {
                    Ok(()) => Ok(()),
                    Err(f) => {
                        let mut s2 = Stats::default();
                        if c14::check_stream(&stream, &r.text, &mut s2).is_err() {
                            st.class("discarded-loader-disagrees-with-model");
                            st.discard();
                            return Ok(());
                        }
                        Err(f)
                    }
                }
            },
        );
        cx.require_class("cli-sample", "cli-offset-in-key", 10);
        cx.require_class("cli-sample", "cli-offset-in-scalar", 10);
        cli::cleanup();
    } else {
        cx.note("cli-sample skipped: no CLI binary (VH_CLI)");
    }
}
