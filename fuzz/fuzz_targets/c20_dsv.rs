#![no_main]
use libfuzzer_sys::fuzz_target;

// E4: coverage-guided search over the entropy of sub-check "engines-vs-scalar" of C20 (ASan build).
fuzz_target!(|data: &[u8]| {
    if let Some(v) = vh::fuzz::one("C20", "engines-vs-scalar", data) {
        panic!("C20 violation: {}", v);
    }
});
