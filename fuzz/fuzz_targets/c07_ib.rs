#![no_main]
use libfuzzer_sys::fuzz_target;

// E4: coverage-guided search over the entropy of sub-check "ib-rank-select" of C07 (ASan build).
fuzz_target!(|data: &[u8]| {
    if let Some(v) = vh::fuzz::one("C07", "ib-rank-select", data) {
        panic!("C07 violation: {}", v);
    }
});
