#![no_main]
use libfuzzer_sys::fuzz_target;

// E4: coverage-guided search over the entropy of sub-check "validators-vs-std" of C13 (ASan build).
fuzz_target!(|data: &[u8]| {
    if let Some(v) = vh::fuzz::one("C13", "validators-vs-std", data) {
        panic!("C13 violation: {}", v);
    }
});
