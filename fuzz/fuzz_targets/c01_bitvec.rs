#![no_main]
use libfuzzer_sys::fuzz_target;
use vh::engine::{Src, Stats};

fuzz_target!(|data: &[u8]| {
    let mut u = Src::new(data);
    let mut st = Stats::default();
    let c = vh::props::c01::gen_case(&mut u, 64);
    if let Err(f) = vh::props::c01::check_case(&c, &mut u, &mut st) {
        panic!("C01 violation {}: {}", f.sig, f.detail);
    }
});
