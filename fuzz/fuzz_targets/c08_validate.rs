#![no_main]
use libfuzzer_sys::fuzz_target;

// E4: coverage-guided search over the entropy of sub-check "validate-vs-pda" of C08 (ASan build).
fuzz_target!(|data: &[u8]| {
    if let Some(v) = vh::fuzz::one("C08", "validate-vs-pda", data) {
        panic!("C08 violation: {}", v);
    }
});
