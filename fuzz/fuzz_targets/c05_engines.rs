#![no_main]
use libfuzzer_sys::fuzz_target;

// E4: coverage-guided search over the entropy of sub-check "engines-agree" of C05 (ASan build).
fuzz_target!(|data: &[u8]| {
    if let Some(v) = vh::fuzz::one("C05", "engines-agree", data) {
        panic!("C05 violation: {}", v);
    }
});
