#![no_main]
use libfuzzer_sys::fuzz_target;

// E4: coverage-guided search over the entropy of sub-check "kernels-vs-definition" of C16 (ASan build).
fuzz_target!(|data: &[u8]| {
    if let Some(v) = vh::fuzz::one("C16", "kernels-vs-definition", data) {
        panic!("C16 violation: {}", v);
    }
});
