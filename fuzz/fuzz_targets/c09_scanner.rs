#![no_main]
use libfuzzer_sys::fuzz_target;

// E4: coverage-guided search over the entropy of sub-check "scanner-vs-naive" of C09 (ASan build).
fuzz_target!(|data: &[u8]| {
    if let Some(v) = vh::fuzz::one("C09", "scanner-vs-naive", data) {
        panic!("C09 violation: {}", v);
    }
});
