#![no_main]
use libfuzzer_sys::fuzz_target;

// E4: coverage-guided search over the entropy of sub-check "bp-vs-scan" of C04 (ASan build).
fuzz_target!(|data: &[u8]| {
    if let Some(v) = vh::fuzz::one("C04", "bp-vs-scan", data) {
        panic!("C04 violation: {}", v);
    }
});
