#![no_main]
use libfuzzer_sys::fuzz_target;

// E4: coverage-guided search over the entropy of sub-check "rows-fields-vs-model" of C21 (ASan build).
fuzz_target!(|data: &[u8]| {
    if let Some(v) = vh::fuzz::one("C21", "rows-fields-vs-model", data) {
        panic!("C21 violation: {}", v);
    }
});
