#!/bin/bash
# ./run.sh <id> <quick|thorough>   — decide one property on /repo's working tree
# ./run.sh replay <file>           — re-run one replay file (strict, no search)
# Exit: 0 held / 1 violation (VIOLATION line printed) / 2 inconclusive (build, timeout, infra)
set -u
ROOT="$(cd "$(dirname "${BASH_SOURCE[0]}")" && pwd)"
cd "$ROOT" || exit 2
export VERIF_ROOT="$ROOT"
export CARGO_NET_OFFLINE=true RUST_BACKTRACE=0 NO_COLOR=1 CARGO_TERM_COLOR=never
unset SUCCINCTLY_SIMD || true
REPO="${VERIF_REPO:-/repo}"
mkdir -p "$ROOT/out/parts" "$ROOT/out/logs" "$ROOT/evidence"

feat_of() { case "$1" in default|sse2) echo "";; simd) echo "simd";; portable-popcount) echo "portable-popcount";; scalar-yaml) echo "scalar-yaml";; esac; }
tdir_of() { case "$1" in sse2) echo default;; *) echo "$1";; esac; }

build_cfg() { # <cfg>
  local cfg="$1" td; td="$(tdir_of "$cfg")"
  local log="$ROOT/out/logs/build-$td.log"
  if ! RUSTFLAGS="--cfg succinctly_verif" cargo build --release --quiet \
        --manifest-path "$ROOT/harness/Cargo.toml" --target-dir "$ROOT/target/$td" \
        --features "$(feat_of "$cfg")" >"$log" 2>&1; then
    echo "BUILD-FAILED config=$cfg (see $log)" >&2; tail -30 "$log" >&2; return 2
  fi
}
build_cli() {
  local log="$ROOT/out/logs/build-cli.log"
  if ! cargo build --release --quiet --manifest-path "$REPO/Cargo.toml" --features cli \
        --bin succinctly --target-dir "$ROOT/target/cli" >"$log" 2>&1; then
    echo "BUILD-FAILED cli (see $log)" >&2; tail -30 "$log" >&2; return 2
  fi
}

configs_of() { # property -> harness configurations it runs in
  case "$1" in
    C01) echo "default simd portable-popcount";;
    C02) echo "default simd portable-popcount";;
    C04) echo "default simd";;
    C16) echo "default sse2 scalar-yaml";;
    *)   echo "default";;
  esac
}
needs_cli() { case "$1" in C08|C10|C11|C14|C15|C18|C19|C21|C22|C23|C24|C25|C26|C27|C28|C29|C30) return 0;; *) return 1;; esac; }

# thorough tier: coverage-guided campaign (E4, cargo-fuzz + ASan) after the generated search.
# A fuzz infrastructure problem (nightly build failure) is reported but does not turn a
# passing check into a failure: exit codes combine as max(violation) > inconclusive > ok.
fuzz_tier() { # <rc so far>
  local rc="$1"
  if [ "$tier" = thorough ] && [ "$rc" -ne 1 ] && [ -z "${VERIF_NO_FUZZ:-}" ]; then
    "$ROOT/fuzz.sh" "$id" "${VERIF_FUZZ_RUNS:-300000}"; local frc=$?
    if [ $frc -eq 1 ]; then rc=1; elif [ $frc -ne 0 ] && [ "$rc" -eq 0 ]; then rc=2; fi
  fi
  exit "$rc"
}

if [ "${1:-}" = "replay" ]; then
  [ -n "${2:-}" ] || { echo "usage: run.sh replay <file>" >&2; exit 2; }
  file="$(readlink -f "$2")"
  id="$(python3 -c 'import json,sys;print(json.load(open(sys.argv[1]))["property"])' "$file")" || exit 2
  cfgs="$(configs_of "$id")"
  for c in $cfgs; do build_cfg "$c" || exit 2; done
  if needs_cli "$id"; then build_cli || exit 2; fi
  export VH_CLI="$ROOT/target/cli/release/succinctly"
  set -- $cfgs
  if [ $# -eq 1 ]; then exec "$ROOT/target/default/release/vh" replay "$file"; fi
  # matrix property: replay in every configuration, then compare the dumps
  worst=0; rm -f "$ROOT"/out/replay-dump.*.txt
  for c in $cfgs; do
    if [ "$c" = sse2 ]; then SUCCINCTLY_SIMD=sse2 VH_CONFIG="$c" "$ROOT/target/default/release/vh" replay "$file"
    else VH_CONFIG="$c" "$ROOT/target/$(tdir_of "$c")/release/vh" replay "$file"; fi
    rc=$?; if [ $rc -eq 1 ]; then worst=1; elif [ $rc -ne 0 ] && [ $worst -ne 1 ]; then worst=2; fi
  done
  first=""
  for f in "$ROOT"/out/replay-dump.*.txt; do
    [ -e "$f" ] || continue
    if [ -z "$first" ]; then first="$f"; continue; fi
    if ! cmp -s "$first" "$f"; then
      echo "VIOLATION property=$id replay=$file"
      echo "  dumps differ: $first vs $f" >&2; diff "$first" "$f" | head -20 >&2
      worst=1
    fi
  done
  exit $worst
fi

id="${1:-}"; tier="${VERIF_TIER:-${2:-quick}}"
# properties whose cases spawn CLI processes: every shrink step costs many spawns
case "$id" in C11|C15|C22|C24|C26|C27) export VERIF_SHRINK_ITERS="${VERIF_SHRINK_ITERS:-120}";; esac
[ -n "$id" ] || { echo "usage: run.sh <id> <quick|thorough>" >&2; exit 2; }
rm -f "$ROOT/evidence/$id.json"
cfgs="$(configs_of "$id")"
for c in $cfgs; do build_cfg "$c" || exit 2; done
if needs_cli "$id"; then build_cli || exit 2; fi
export VH_CLI="$ROOT/target/cli/release/succinctly"

set -- $cfgs
if [ $# -eq 1 ]; then
  VH_CONFIG=default "$ROOT/target/default/release/vh" run "$id" "$tier"
  rc=$?
  fuzz_tier "$rc"
fi

# configuration matrix: same seeded case stream in every configuration
worst=0; parts=()
rm -f "$ROOT/out/parts/$id."*
for c in $cfgs; do
  part="$ROOT/out/parts/$id.$c.json"; rm -f "$part"; parts+=("$part")
  if [ "$c" = sse2 ]; then
    SUCCINCTLY_SIMD=sse2 VH_CONFIG="$c" VH_EVIDENCE_OUT="$part" "$ROOT/target/default/release/vh" run "$id" "$tier"
  else
    VH_CONFIG="$c" VH_EVIDENCE_OUT="$part" "$ROOT/target/$(tdir_of "$c")/release/vh" run "$id" "$tier"
  fi
  rc=$?
  if [ $rc -eq 1 ]; then worst=1; elif [ $rc -ne 0 ] && [ $worst -ne 1 ]; then worst=2; fi
done
"$ROOT/target/default/release/vh" merge "$id" "$tier" "${parts[@]}"; mrc=$?
if [ $mrc -eq 1 ]; then worst=1; elif [ $mrc -ne 0 ] && [ $worst -eq 0 ]; then worst=2; fi
fuzz_tier "$worst"
