#!/bin/bash
# Offline build of every configuration the checks use. Idempotent.
set -u
ROOT="$(cd "$(dirname "${BASH_SOURCE[0]}")" && pwd)"
cd "$ROOT" || exit 2
export CARGO_NET_OFFLINE=true
REPO="${VERIF_REPO:-/repo}"
mkdir -p out/logs out/parts evidence
rc=0
for cfg in default simd portable-popcount scalar-yaml; do
  feat=""; [ "$cfg" != default ] && feat="$cfg"
  RUSTFLAGS="--cfg succinctly_verif" cargo build --release --quiet \
     --manifest-path "$ROOT/harness/Cargo.toml" --target-dir "$ROOT/target/$cfg" --features "$feat" \
     > "out/logs/build-$cfg.log" 2>&1 || { echo "setup: build $cfg failed"; tail -20 "out/logs/build-$cfg.log"; rc=1; }
done
cargo build --release --quiet --manifest-path "$REPO/Cargo.toml" --features cli --bin succinctly \
   --target-dir "$ROOT/target/cli" > out/logs/build-cli.log 2>&1 || { echo "setup: build cli failed"; tail -20 out/logs/build-cli.log; rc=1; }
exit $rc
