#!/usr/bin/env python3
"""Regenerate /verif/MANIFEST.json from the table below. Run after adding a check."""
import json, os, sys
ROOT = os.path.dirname(os.path.dirname(os.path.abspath(__file__)))

# id -> (technique, level text, level note, design ref)
T = {k: tuple(v) for k, v in json.load(open(os.path.join(ROOT, "tools", "manifest_table.json"))).items()}

BUILT = sorted(T.keys())

def main():
    props = [json.loads(l) for l in open(os.path.join(ROOT, "properties.jsonl"))]
    checks, na = [], []
    for p in props:
        pid = p["id"]
        if pid in T:
            tech, text, note, ref = T[pid]
            checks.append({
                "property_id": pid,
                "quick_cmd": f"./run.sh {pid} quick",
                "thorough_cmd": f"./run.sh {pid} thorough",
                "evidence_file": f"/verif/evidence/{pid}.json",
                "replay_cmd_template": "./run.sh replay {path}",
                "engine": "vh",
                "level_claimed": {"category": "exploration", "text": text, "design_ref": ref},
                "level_note": note,
                "technique": tech,
            })
        else:
            na.append({"property_id": pid, "reason": "check not built yet in this session (work in progress; property-based testing applies, see DESIGN.md §4)"})
    m = {
        "version": 1,
        "setup_cmd": "./setup.sh",
        "hooks": {
            "guard": "--cfg succinctly_verif",
            "enable": "RUSTFLAGS='--cfg succinctly_verif' cargo build (run.sh / setup.sh do this for every harness configuration; the CLI is built without the guard)",
            "baseline_off_cmd": "cd /repo && cargo test --workspace --no-fail-fast --offline",
            "source_commits": json.load(open(os.path.join(ROOT, "tools", "hook_commits.json"))) if os.path.exists(os.path.join(ROOT, "tools", "hook_commits.json")) else [],
            "add_only": True,
        },
        "engines": [
            {"name": "vh", "path": "/verif/harness/vh", "serves_properties": BUILT,
             "kind_free_text": "Rust binary: proptest TestRunner over an entropy strategy with custom shrinking, arbitrary::Unstructured decoders, reference models/oracles per property, CLI driver, crash-isolating workers, evidence writer"},
        ],
        "checks": checks,
        "not_applicable": na,
        "notes": "All checks: ./run.sh <id> <tier>; exit 0 held, 1 violation, 2 inconclusive. Known findings in /verif/known_findings.json. See DESIGN.md.",
    }
    json.dump(m, open(os.path.join(ROOT, "MANIFEST.json"), "w"), indent=1)
    print("claimed", len(checks), "not_applicable", len(na))

main()
