#!/usr/bin/env python3
"""Regenerate /verif/MANIFEST.json from the table below. Run after adding a check."""
import json, os, sys
ROOT = os.path.dirname(os.path.dirname(os.path.abspath(__file__)))

# id -> (technique, level text, level note, design ref)
T = {k: tuple(v) for k, v in json.load(open(os.path.join(ROOT, "tools", "manifest_table.json"))).items()}

BUILT = sorted(T.keys())

def main():
    props = [json.loads(l) for l in open(os.path.join(ROOT, "properties.jsonl"))]
    checks, na = [], []
    for p in props:
        pid = p["id"]
        if pid in T:
            tech, text, note, ref = T[pid]
            checks.append({
                "property_id": pid,
                "quick_cmd": f"./run.sh {pid} quick",
                "thorough_cmd": f"./run.sh {pid} thorough",
                "evidence_file": f"/verif/evidence/{pid}.json",
                "replay_cmd_template": "./run.sh replay {path}",
                "engine": "vh",
                "level_claimed": {"category": "exploration", "text": text, "design_ref": ref},
                "level_note": note,
                "technique": tech,
            })
        else:
            na.append({"property_id": pid, "reason": "check not built yet in this session (work in progress; property-based testing applies, see DESIGN.md §4)"})
    m = {
        "version": 1,
        "setup_cmd": "./setup.sh",
        "hooks": {
            "guard": "--cfg succinctly_verif",
            "enable": "RUSTFLAGS='--cfg succinctly_verif' cargo build (run.sh / setup.sh do this for every harness configuration; the CLI is built without the guard)",
            "baseline_off_cmd": "cd /repo && cargo test --workspace --no-fail-fast --offline",
            "source_commits": json.load(open(os.path.join(ROOT, "tools", "hook_commits.json"))) if os.path.exists(os.path.join(ROOT, "tools", "hook_commits.json")) else [],
            "add_only": True,
        },
        "engines": [
            {"name": "vh", "path": "/verif/harness/vh", "serves_properties": BUILT,
             "kind_free_text": "Rust binary: proptest TestRunner over an entropy strategy with custom shrinking, arbitrary::Unstructured decoders, reference models/oracles per property, CLI driver (E2), crash-isolating worker processes (E3), configuration matrix with per-case dump digests (E5), evidence writer"},
            {"name": "fuzz", "path": "/verif/fuzz", "serves_properties": ["C01", "C04", "C05", "C07", "C08", "C09", "C13", "C16", "C20", "C21"],
             "kind_free_text": "cargo-fuzz / libFuzzer + AddressSanitizer targets (nightly) that feed fuzzer bytes as entropy into the same sub-check closures (vh::fuzz::one); run by ./fuzz.sh in the thorough tier"},
            {"name": "seeded", "path": "/verif/seeded", "serves_properties": BUILT,
             "kind_free_text": "38 independently seeded defects (patch + demonstration + meta.json) used to measure sensitivity; tools/seeded_eval.sh evaluates one against a scratch copy"},
        ],
        "checks": checks,
        "not_applicable": na,
        "notes": "All checks: ./run.sh <id> <tier>; exit 0 held, 1 violation (VIOLATION line), 2 inconclusive (build failure, generator regression, worker hang/timeout). Known findings and repaired defects: /verif/known_findings.json (status known/fixed); committed regression inputs: /verif/replays/<id>/. DESIGN.md section 9 records the engine as built, false alarms corrected, repaired and open findings, and which checks catch which seeded change.",
    }
    json.dump(m, open(os.path.join(ROOT, "MANIFEST.json"), "w"), indent=1)
    print("claimed", len(checks), "not_applicable", len(na))

main()
