#!/usr/bin/env python3
"""keep_seeded.py <srcdir> <id> <n> <result: caught|missed> <signature-or-note>
Copy a confirmed seeded change into /verif/seeded/<id>/<n>/ and extend its meta.json."""
import json, os, shutil, sys
src, pid, n, result, note = sys.argv[1:6]
dst = f"/verif/seeded/{pid}/{n}"
os.makedirs(dst, exist_ok=True)
for f in os.listdir(src):
    shutil.copy(os.path.join(src, f), dst)
m = json.load(open(os.path.join(dst, "meta.json")))
m["lead_verification"] = {
    "demo": "tests/demo.rs copied into a scratch worktree of /repo HEAD: `cargo test --offline --test demo` passes without the patch (exit 0) and fails with it (exit 101)",
    "check_cmd": f"tools/seeded_eval.sh seeded/{pid}/{n}/patch.diff {pid} quick   (scratch worktree + scratch copy of /verif; /repo untouched)",
    "check_result": result,
    "signature_or_note": note,
    "baseline": "full `cargo test --workspace --no-fail-fast --offline` run by the seeding agent with the change applied: see 'ran'",
}
json.dump(m, open(os.path.join(dst, "meta.json"), "w"), indent=1)
print("kept", dst)
