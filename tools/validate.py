#!/opt/veriftools/pyvenv/bin/python
import json, jsonschema, sys, glob
m=json.load(open('/verif/MANIFEST.json')); s=json.load(open('/root/.vp/MANIFEST.schema.json'))
jsonschema.validate(m,s); print("manifest valid:", len(m['checks']), "checks")
es=json.load(open('/root/.vp/EVIDENCE.schema.json'))
claimed={c['property_id'] for c in m['checks']}
for f in sorted(glob.glob('/verif/evidence/*.json')):
    if f.split('/')[-1][:-5] not in claimed: continue
    try:
        jsonschema.validate(json.load(open(f)), es)
    except Exception as e:
        print("INVALID", f, str(e)[:300]); sys.exit(1)
print("evidence valid:", len(glob.glob('/verif/evidence/*.json')))
