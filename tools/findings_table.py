#!/usr/bin/env python3
"""Print markdown tables of fixed / open findings from known_findings.json (grouped by commit / shape)."""
import json, collections
d = json.load(open('/verif/known_findings.json'))['findings']
fixed = collections.OrderedDict()
for f in d:
    if f['status'] == 'fixed':
        key = f.get('commit')
        fixed.setdefault(key, {'props': set(), 'what': f.get('line', f.get('what', ''))})
        fixed[key]['props'].add(f['property'])
print("| Commit | Properties | What failed |\n|---|---|---|")
for c, v in fixed.items():
    w = v['what']
    w = w.split(' ', 3)[3] if w.startswith('fixed:') else w
    ww = w.replace('|', '/')[:400]
    print(f"| {c} | {', '.join(sorted(v['props']))} | {ww} |")
print()
opens = collections.OrderedDict()
for f in d:
    if f['status'] == 'known':
        shape = f['signature'].split('/')[-1] if f['property'] in ('C14', 'C18') else f['signature']
        k = (f['property'], shape)
        opens.setdefault(k, f.get('what', ''))
print("| Property | Signature / shape | What fails |\n|---|---|---|")
for (p, s), w in opens.items():
    ww = w.replace('|', '/')[:420]
    print(f"| {p} | `{s}` | {ww} |")
