#!/bin/bash
# tools/seeded_eval.sh <patch.diff> <property id> [tier]
# Evaluate one seeded change WITHOUT touching /repo: scratch worktree of /repo + scratch copy
# of /verif whose harness points at that worktree. Prints the check's output and exit code.
set -u
patch="$(readlink -f "$1")"; id="$2"; tier="${3:-quick}"
tag="ev-$$"
wt="/tmp/$tag-repo"; vc="/tmp/$tag-verif"
cleanup(){ git -C /repo worktree remove --force "$wt" >/dev/null 2>&1; rm -rf "$vc" "$wt"; }
trap cleanup EXIT
git -C /repo worktree add -q --detach "$wt" HEAD || exit 2
if ! git -C "$wt" apply "$patch"; then echo "SEEDED-EVAL patch does not apply"; exit 2; fi
mkdir -p "$vc"
rsync -a --exclude target --exclude out --exclude .git --exclude fuzz/target /verif/ "$vc/"
sed -i "s#path = \"/repo\"#path = \"$wt\"#" "$vc/harness/vh/Cargo.toml"
cd "$vc" && VERIF_REPO="$wt" ./run.sh "$id" "$tier" 2>&1 | grep -v "^KNOWN-FINDING" | tail -12
rc=${PIPESTATUS[0]}
echo "SEEDED-EVAL property=$id patch=$patch exit=$rc"
exit $rc
