#!/bin/bash
# ./fuzz.sh <property id> <runs> — E4 campaign(s) for one property (thorough tier).
# exit 0 no crash / 1 violation (VIOLATION line) / 2 infrastructure
set -u
ROOT="$(cd "$(dirname "${BASH_SOURCE[0]}")" && pwd)"; cd "$ROOT" || exit 2
export VERIF_ROOT="$ROOT" CARGO_NET_OFFLINE=true RUST_BACKTRACE=0
id="$1"; runs="${2:-200000}"; seed="${VERIF_SEED:-12648430}"
case "$id" in
  C01) tg="c01_bitvec";; C04) tg="c04_bp";; C05) tg="c05_engines";; C07) tg="c07_ib";; C08) tg="c08_validate";;
  C09) tg="c09_scanner";; C13) tg="c13_utf8";; C16) tg="c16_kernels";; C20) tg="c20_dsv";; C21) tg="c21_dsv_rows";;
  *) exit 0;;
esac
log="$ROOT/out/logs/fuzz-$tg.log"; mkdir -p "$ROOT/out/logs" "$ROOT/fuzz/corpus-work/$tg" "$ROOT/out/$id"
if ! RUSTFLAGS="--cfg succinctly_verif" cargo +nightly fuzz build --fuzz-dir "$ROOT/fuzz" "$tg" >"$log" 2>&1; then
  echo "FUZZ-BUILD-FAILED target=$tg (see $log)" >&2; tail -5 "$log" >&2; exit 2
fi
rm -rf "$ROOT/fuzz/corpus-work/$tg"; mkdir -p "$ROOT/fuzz/corpus-work/$tg" "$ROOT/fuzz/artifacts/$tg"
rm -f "$ROOT/fuzz/artifacts/$tg"/crash-* 2>/dev/null
RUSTFLAGS="--cfg succinctly_verif" cargo +nightly fuzz run --fuzz-dir "$ROOT/fuzz" "$tg" "$ROOT/fuzz/corpus-work/$tg" -- \
   -runs="$runs" -seed="$((seed % 2147483647 + 1))" -len_control=0 -max_len=4096 -timeout=60 -rss_limit_mb=4096 >>"$log" 2>&1
rc=$?
crash="$(ls "$ROOT/fuzz/artifacts/$tg"/crash-* 2>/dev/null | head -1)"
if [ -n "$crash" ]; then
  sub="$(grep -o 'one("[^"]*", "[^"]*"' "$ROOT/fuzz/fuzz_targets/$tg.rs" | sed 's/.*, "//; s/"//')"
  rp="$ROOT/out/$id/fuzz-$tg-$(basename "$crash").json"
  python3 - "$crash" "$id" "$sub" "$rp" <<'PY'
import sys, json
data = open(sys.argv[1], 'rb').read()
json.dump({"property": sys.argv[2], "subcheck": sys.argv[3], "kind": "entropy", "tier": "thorough",
           "signature": "found by libFuzzer (E4); ./run.sh replay <this file> reproduces it on the stable build",
           "entropy_hex": data.hex()}, open(sys.argv[4], 'w'), indent=1)
PY
  echo "VIOLATION property=$id replay=$rp"
  exit 1
fi
[ $rc -eq 0 ] || { echo "FUZZ-RUN-FAILED target=$tg rc=$rc (see $log)" >&2; exit 2; }
echo "FUZZ-OK property=$id target=$tg runs=$runs"
exit 0
